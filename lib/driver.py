#!/usr/bin/env python3
"""Driver for the solver-based checks of /verif (see DESIGN.md §1.5).

check <Cxx> [--tier quick|thorough]
  1. regenerates the GOTO encodings of the property's harnesses from /repo's
     current working tree (`cargo kani --only-codegen`, path dependencies),
  2. runs Kani's own back-end pipeline (goto-cc, goto-instrument, cbmc+CaDiCaL)
     per harness, in parallel, under a memory and a time limit,
  3. classifies every CBMC property (assertion / cover / unwinding / ...),
  4. replays counterexamples natively (Kani concrete playback) before a
     VIOLATION line is printed,
  5. writes /verif/evidence/<Cxx>.json.

Exit codes: 0 property held on everything explored; 1 VIOLATION (replayed);
2 inconclusive (timeout, OOM, unwinding bound hit, vacuous harness, replay
does not reproduce, build failure).  Only stdlib is used.
"""
import concurrent.futures as cf
import fcntl
import hashlib
import json
import os
import re
import resource
import shutil
import subprocess
import threading
import sys
import time

VERIF = os.path.dirname(os.path.dirname(os.path.abspath(__file__)))
REPO = os.environ.get("VERIF_REPO", "/repo")
BUILD = os.path.join(VERIF, ".build")
EVID = os.environ.get("VERIF_EVIDENCE_DIR") or os.path.join(VERIF, "evidence")  # seed runs write elsewhere
REPLAYS = os.path.join(VERIF, "replays")
KANI_HOME = os.path.expanduser("~/.kani/kani-0.68.0")
KANI_LIB_C = os.path.join(KANI_HOME, "library/kani/kani_lib.c")
JOBS = int(os.environ.get("VERIF_JOBS", "14"))

sys.path.insert(0, VERIF)
import registry  # noqa: E402

ENV = dict(os.environ)
ENV.update({"CARGO_NET_OFFLINE": "true", "CARGO_TERM_COLOR": "never"})
ENV.pop("RUSTUP_TOOLCHAIN", None)

# CBMC flag sets, copied from `cargo kani --verbose` (Kani 0.68):
CBMC_COMMON = ["--no-malloc-may-fail", "--no-undefined-shift-check", "--no-signed-overflow-check",
               "--no-self-loops-to-assumptions", "--no-pointer-primitive-check", "--object-bits", "16",
               "--sat-solver", "cadical", "--slice-formula"]
CBMC_PROFILE = {
    # Kani defaults (memory safety + arithmetic checks of CBMC on)
    "full": ["--nan-check"],
    # = cargo kani -Z unstable-options --no-memory-safety-checks --no-overflow-checks
    "lean": ["--no-bounds-check", "--no-pointer-check", "--no-div-by-zero-check"],
}


def log(*a):
    print(*a, file=sys.stderr, flush=True)


def sh(cmd, **kw):
    return subprocess.run(cmd, stdout=subprocess.PIPE, stderr=subprocess.STDOUT, text=True, env=ENV, **kw)


# ---------------------------------------------------------------- codegen

def codegen(crate, harness_names, needed=None):
    """(Re)generate GOTO symbol tables for the given harnesses of one harness
    crate from the current /repo tree. Returns {pretty_name: metadata}."""
    cdir = os.path.join(VERIF, "harness", crate)
    tdir = os.path.join(BUILD, "target", crate)
    os.makedirs(tdir, exist_ok=True)
    pre = os.path.join(cdir, "pregen.sh")
    lock = open(os.path.join(tdir, ".verif.lock"), "w")
    fcntl.flock(lock, fcntl.LOCK_EX)
    try:
        # same dependency versions as the repository itself
        shutil.copyfile(os.path.join(REPO, "Cargo.lock"), os.path.join(cdir, "Cargo.lock"))
        if os.path.exists(pre):
            r = sh(["sh", pre, REPO], cwd=cdir)
            if r.returncode != 0:
                raise RuntimeError("pregen failed for %s:\n%s" % (crate, r.stdout[-3000:]))
        cmd = ["cargo", "kani", "--only-codegen", "--target-dir", tdir, "--exact"]
        for extra in registry.CRATES.get(crate, {}).get("kani_args", []):
            cmd.append(extra)
        for h in sorted(harness_names):
            cmd += ["--harness", h]
        env = dict(ENV)
        rf = registry.CRATES.get(crate, {}).get("rustflags")
        if rf:
            env["RUSTFLAGS"] = rf
        t0 = time.time()
        r = subprocess.run(cmd, cwd=cdir, stdout=subprocess.PIPE, stderr=subprocess.STDOUT, text=True, env=env)
        dt = time.time() - t0
        if r.returncode != 0:
            raise RuntimeError("codegen failed for %s (%.0fs):\n%s" % (crate, dt, r.stdout[-6000:]))
        # newest metadata file that contains the requested harnesses
        metas = []
        for root, _d, files in os.walk(os.path.join(tdir, "kani")):
            for f in files:
                if f.endswith(".kani-metadata.json"):
                    p = os.path.join(root, f)
                    metas.append((os.path.getmtime(p), p))
        metas.sort(reverse=True)
        out = {}
        for _mt, p in metas:
            d = json.load(open(p))
            for h in d.get("proof_harnesses", []):
                if h["pretty_name"] in harness_names and h["pretty_name"] not in out and os.path.exists(h["goto_file"]):
                    out[h["pretty_name"]] = h
            if len(out) == len(harness_names):
                break
        missing = set(harness_names) - set(out)
        if missing:
            raise RuntimeError("harnesses not generated in %s: %s\n%s" % (crate, sorted(missing), r.stdout[-3000:]))
        # private copies, so that a concurrent codegen cannot disturb the solver runs
        for name, h in out.items():
            if needed is not None and name not in needed:
                continue
            wd = os.path.join(BUILD, "run", crate, name.replace("::", "."))
            os.makedirs(wd, exist_ok=True)
            dst = os.path.join(wd, "h.symtab.out")
            shutil.copyfile(h["goto_file"], dst)
            h["work_dir"] = wd
            h["symtab"] = dst
        return out, dt
    finally:
        fcntl.flock(lock, fcntl.LOCK_UN)
        lock.close()


# ---------------------------------------------------------------- cbmc

def _limits(mem_gb):
    def f():
        lim = int(mem_gb * (1 << 30))
        resource.setrlimit(resource.RLIMIT_AS, (lim, lim))
        os.setsid()
    return f


def run_harness(spec, meta):
    """Kani's back-end pipeline for one harness. Returns a result dict."""
    wd = meta["work_dir"]
    out = os.path.join(wd, "h.out")
    res = {"harness": spec["name"], "crate": spec["crate"], "profile": spec.get("profile", "lean"),
           "unwind": meta["attributes"].get("unwind_value"), "status": "ERROR", "props": [], "wall_s": 0.0}
    t0 = time.time()
    steps = [
        ["goto-cc", meta["symtab"], KANI_LIB_C, "-o", out],
        ["goto-cc", out, "--function", meta["mangled_name"], "-o", out],
        ["goto-instrument", "--add-library", "--no-malloc-may-fail", out, out],
        ["goto-instrument", "--generate-function-body-options", "assert-false-assume-false",
         "--generate-function-body", ".*", "--drop-unused-functions", out, out],
        ["goto-instrument", "--ensure-one-backedge-per-target", out, out],
    ]
    for c in steps:
        r = sh(c)
        if r.returncode != 0:
            res["error"] = "%s failed: %s" % (c[0], r.stdout[-1500:])
            res["wall_s"] = time.time() - t0
            return res
    flags = list(CBMC_COMMON) + CBMC_PROFILE[res["profile"]]
    if res["unwind"] is not None:
        flags += ["--unwind", str(res["unwind"])]
    flags += spec.get("cbmc_args", [])
    res["cbmc_flags"] = " ".join(flags)
    digest = hashlib.sha256()
    digest.update(open(out, "rb").read())
    digest.update(res["cbmc_flags"].encode())
    digest.update(b"parser-v3")
    key = digest.hexdigest()
    res["formula_sha256"] = key
    cache_f = os.path.join(BUILD, "cache", key + ".json")
    if os.environ.get("VERIF_NO_CACHE") != "1" and os.path.exists(cache_f):
        try:
            c = json.load(open(cache_f))
            c["cached"] = True
            c["harness"], c["crate"] = spec["name"], spec["crate"]
            return c
        except Exception:
            pass
    cmd = ["cbmc"] + flags + [out, "--verbosity", "8", "--json-ui", "--trace"]
    timeout = spec.get("timeout", 600)
    jf = os.path.join(wd, "cbmc.json")
    try:
        with open(jf, "w") as fo:
            p = subprocess.Popen(cmd, stdout=fo, stderr=subprocess.STDOUT, env=ENV,
                                 preexec_fn=_limits(spec.get("mem_gb", 12)))
            try:
                rc = p.wait(timeout=timeout)
            except subprocess.TimeoutExpired:
                try:
                    os.killpg(p.pid, 9)
                except Exception:
                    p.kill()
                p.wait()
                res["status"] = "TIMEOUT"
                res["error"] = "no verdict within %ds" % timeout
                res["wall_s"] = time.time() - t0
                return res
    except Exception as e:  # noqa
        res["error"] = repr(e)
        res["wall_s"] = time.time() - t0
        return res
    res["wall_s"] = time.time() - t0
    res["cbmc_rc"] = rc
    parse_cbmc(jf, res)
    # keep the disk footprint small: goto binaries are regenerated on every run, solver output
    # (with traces) is only kept when VERIF_KEEP=1
    if os.environ.get("VERIF_KEEP") != "1":
        for f in (out, meta["symtab"], jf):
            try:
                os.remove(f)
            except OSError:
                pass
    if res["status"] in ("SUCCESSFUL", "FAILED"):
        os.makedirs(os.path.dirname(cache_f), exist_ok=True)
        slim = dict(res)
        tmp = cache_f + ".%d.tmp" % os.getpid()
        json.dump(slim, open(tmp, "w"))
        os.replace(tmp, cache_f)
    return res


def classify(name, desc):
    m = re.search(r"\.([a-zA-Z_\-]+)\.\d+$", name or "")
    cls = m.group(1) if m else "other"
    return cls


def parse_cbmc(jf, res):
    try:
        data = json.load(open(jf))
    except Exception as e:
        txt = open(jf, errors="replace").read()
        if "std::bad_alloc" in txt or "Out of memory" in txt or "out of memory" in txt:
            res["status"], res["error"] = "OOM", "solver ran out of memory (limit)"
        else:
            res["status"], res["error"] = "ERROR", "unparsable cbmc output: %r; tail=%s" % (e, txt[-400:])
        return
    msgs, results, cstatus = [], None, None
    for item in data:
        if "messageText" in item:
            msgs.append(item["messageText"])
        if "result" in item:
            results = item["result"]
        if "cProverStatus" in item:
            cstatus = item["cProverStatus"]
    text = "\n".join(msgs)
    st = {}
    m = re.search(r"Runtime Symex: ([\d.e\-+]+)s", text)
    if m:
        st["symex_s"] = float(m.group(1))
    st["solver_s"] = round(sum(float(x) for x in re.findall(r"Runtime Solver: ([\d.e\-+]+)s", text)), 4)
    st["decision_s"] = round(sum(float(x) for x in re.findall(r"Runtime decision procedure: ([\d.e\-+]+)s", text)), 4)
    st["solver_calls"] = len(re.findall(r"Runtime Solver:", text))
    m = re.search(r"Generated (\d+) VCC\(s\), (\d+) remaining after simplification", text)
    if m:
        st["vccs"], st["vccs_remaining"] = int(m.group(1)), int(m.group(2))
    mm = re.findall(r"(\d+) variables, (\d+) clauses", text)
    if mm:
        st["sat_vars"], st["sat_clauses"] = int(mm[-1][0]), int(mm[-1][1])
    m = re.search(r"size of program expression: (\d+) steps", text)
    if m:
        st["program_steps"] = int(m.group(1))
    res["stats"] = st
    if results is None:
        if "bad_alloc" in text or "Out of memory" in text:
            res["status"], res["error"] = "OOM", "solver ran out of memory"
        else:
            res["status"], res["error"] = "ERROR", "no result section; status=%s; tail=%s" % (cstatus, text[-600:])
        return
    props = []
    funcs = set()
    for r in results:
        loc = r.get("sourceLocation", {})
        cls = classify(r.get("property", ""), r.get("description", ""))
        desc = r.get("description", "")
        m2 = re.match(r'\[(KANI_CHECK_ID_[^\]]+)\]\s*(.*)$', desc, re.S)
        check_id = None
        if m2:
            check_id, desc = m2.group(1), m2.group(2).strip()
            if len(desc) >= 2 and desc[0] == '"' and desc[-1] == '"':
                desc = desc[1:-1]
        elif cls == "reachability_check":
            check_id = desc.strip()
        p = {"name": r.get("property"), "class": cls, "desc": desc, "check_id": check_id, "status": r.get("status"),
             "file": loc.get("file"), "line": loc.get("line"), "function": loc.get("function")}
        if r.get("status") == "FAILURE" and cls not in ("cover", "reachability_check") and "trace" in r:
            p["trace_inputs"] = extract_inputs(r["trace"])
        fn = loc.get("function")
        fl = loc.get("file") or ""
        if fn and ("/repo/" in fl or fl.startswith("crates/") or "oxidd" in fn or "linear_hashtbl" in fn):
            funcs.add(fn)
        props.append(p)
    # Kani's assertion reachability checks: FAILURE of the companion check = the assertion is reachable
    reach = {p["check_id"]: p["status"] for p in props if p["class"] == "reachability_check"}
    for p in props:
        if p["class"] != "reachability_check" and p.get("check_id") in reach:
            p["reachable"] = reach[p["check_id"]] == "FAILURE"
    props = [p for p in props if p["class"] != "reachability_check"]
    res["props"] = props
    res["repo_functions"] = sorted(funcs)
    res["status"] = "SUCCESSFUL"
    for p in props:
        if p["class"] != "cover" and p["status"] == "FAILURE":
            res["status"] = "FAILED"
    if "ran out of memory" in text or any(p["status"] not in ("SUCCESS", "FAILURE", "SATISFIED", "UNSATISFIABLE") for p in props):
        res["status"], res["error"] = "OOM", "solver ran out of memory / properties left undecided"


def extract_inputs(trace):
    """Concrete values of the nondeterministic inputs in a CBMC trace, in execution order:
    the values returned by kani::any_raw* (what Kani's own concrete playback uses).
    Returns a list of {"data": decimal string, "bytes": little-endian byte list}."""
    vals = []
    for s in trace:
        if s.get("stepType") != "assignment":
            continue
        lhs = s.get("lhs", "")
        if "return_value" not in lhs or "any_raw" not in lhs:
            continue
        v = s.get("value", {})
        b = v.get("binary")
        w = v.get("width")
        if b is None or not w:
            continue
        n = int(b, 2)
        nbytes = max(1, int(w) // 8)
        vals.append({"data": v.get("data", str(n)), "bytes": [(n >> (8 * i)) & 0xFF for i in range(nbytes)]})
    return vals[:400]


# ---------------------------------------------------------------- findings

def load_known():
    known, fixed = [], []
    p = os.path.join(VERIF, "known_findings.txt")
    if os.path.exists(p):
        for line in open(p):
            line = line.strip()
            if not line or line.startswith("#"):
                continue
            if line.startswith("fixed:"):
                fixed.append(line)
                continue
            if line.startswith("known:"):
                d = dict(re.findall(r"(\w+)=(\"[^\"]*\"|\S+)", line))
                d = {k: v.strip('"') for k, v in d.items()}
                d["line"] = line
                known.append(d)
    return known, fixed


def is_known(known, pid, harness, desc):
    for k in known:
        if k.get("property") == pid and k.get("harness") == harness and k.get("site", "") in desc:
            return k
    return None


# ---------------------------------------------------------------- replay

def replay(pid, spec, prop):
    """Replay a solver counterexample natively: Kani concrete playback turns
    the assignment into a unit test over the same harness body, compiled with
    the ordinary (non-verification) toolchain against the real /repo code.
    Returns (reproduced: bool|None, path)."""
    crate, name = spec["crate"], spec["name"]
    top = os.path.join(REPLAYS, pid, crate + "." + name.replace("::", "."))
    shutil.rmtree(top, ignore_errors=True)
    os.makedirs(os.path.join(top, "harness"), exist_ok=True)
    src = os.path.join(VERIF, "harness", crate)
    rdir = os.path.join(top, "harness", crate)
    shutil.copytree(src, rdir, ignore=shutil.ignore_patterns("target"))
    # shared sources are include!d through ../../common
    if os.path.isdir(os.path.join(VERIF, "harness", "common")):
        shutil.copytree(os.path.join(VERIF, "harness", "common"), os.path.join(top, "harness", "common"))
    env = dict(ENV)
    rf = registry.CRATES.get(crate, {}).get("rustflags")
    if rf:
        env["RUSTFLAGS"] = rf
    inputs = prop.get("trace_inputs") or []
    info = {"property": pid, "harness": name, "crate": crate, "failed_check": prop["desc"],
            "location": "%s:%s" % (prop.get("file"), prop.get("line")), "inputs_in_trace": [i.get("data") for i in inputs]}
    fn_name = name.split("::")[-1]
    tests, code = [], []
    if inputs:
        # unit test in the format of Kani's concrete playback, generated from the trace of the
        # failing check found by *this* solver run (no second solver run needed)
        tname = "kani_concrete_playback_%s_%s" % (fn_name, hashlib.sha256(json.dumps(info["inputs_in_trace"]).encode()).hexdigest()[:12])
        rows = ",\n".join("        // %s\n        vec![%s]" % (i.get("data"), ", ".join(str(b) for b in i["bytes"])) for i in inputs)
        code.append("#[test]\nfn %s() {\n    let concrete_vals: Vec<Vec<u8>> = vec![\n%s\n    ];\n    kani::concrete_playback_run(concrete_vals, %s);\n}" % (tname, rows, fn_name))
        tests.append(tname)
    else:
        cmd = ["cargo", "kani", "--exact", "--harness", name, "-Z", "concrete-playback", "--concrete-playback=print",
               "--target-dir", os.path.join(BUILD, "target", "replay-" + crate)]
        for extra in registry.CRATES.get(crate, {}).get("kani_args", []):
            cmd.append(extra)
        if spec.get("profile", "lean") == "lean":
            cmd += ["-Z", "unstable-options", "--no-memory-safety-checks", "--no-overflow-checks"]
        try:
            r = subprocess.run(cmd, cwd=rdir, stdout=subprocess.PIPE, stderr=subprocess.STDOUT, text=True, env=env,
                               timeout=spec.get("timeout", 600) * 2 + 300)
            open(os.path.join(rdir, "kani_playback_gen.log"), "w").write(r.stdout)
        except subprocess.TimeoutExpired:
            info["replay"] = "playback generation timed out"
            json.dump(info, open(os.path.join(rdir, "replay.json"), "w"), indent=1)
            return None, rdir
        blocks = re.findall(r"(#\[test\]\nfn (kani_concrete_playback_\w+)\(\) \{.*?\n\})", r.stdout, re.S)
        seen_t = set()
        for blk, tname in blocks:
            if tname not in seen_t:
                seen_t.add(tname)
                tests.append(tname)
                code.append(blk)
    info["playback_tests"] = tests
    if not tests:
        info["replay"] = "kani produced no concrete playback test"
        json.dump(info, open(os.path.join(rdir, "replay.json"), "w"), indent=1)
        return None, rdir
    src_file = os.path.join(rdir, spec.get("src_file") or ("src/" + name.split("::")[0] + ".rs"))
    if not os.path.exists(src_file):
        src_file = os.path.join(rdir, "src/lib.rs")
    with open(src_file, "a") as fo:
        fo.write("\n// ---- concrete playback tests generated by Kani from the solver's counterexample ----\n")
        fo.write("\n\n".join(code) + "\n")
    reproduced = False
    outs = []
    for prof in ([],):
        c = ["cargo", "kani", "playback", "-Z", "concrete-playback"] + prof + ["--", "kani_concrete_playback"]
        try:
            r = subprocess.run(c, cwd=rdir, stdout=subprocess.PIPE, stderr=subprocess.STDOUT, text=True, env=env, timeout=1800)
        except subprocess.TimeoutExpired:
            outs.append("timeout")
            continue
        outs.append(r.stdout[-4000:])
        if re.search(r"test result: FAILED", r.stdout) or re.search(r"panicked at", r.stdout):
            reproduced = True
    info["native_runs"] = outs
    info["reproduced_natively"] = reproduced
    info["how_to_run"] = "cd %s && cargo kani playback -Z concrete-playback -- kani_concrete_playback" % rdir
    json.dump(info, open(os.path.join(rdir, "replay.json"), "w"), indent=1)
    shutil.rmtree(os.path.join(rdir, "target"), ignore_errors=True)
    return reproduced, rdir


# ---------------------------------------------------------------- main

MEMO_MARKERS = ("a result is memoised only under an operator/operand key that denotes it",
                "the operator used as cache key is one that this operation may legitimately memoise under")


def tagged(desc):
    m = re.match(r"\s*((?:C\d{2,3})(?:\s*,\s*C\d{2,3})*)\s*:", desc or "")
    if not m:
        return None
    return [x.strip() for x in m.group(1).split(",")]


def main():
    args = sys.argv[1:]
    if not args:
        print("usage: check <Cxx> [--tier quick|thorough] [--only <substr>]")
        return 2
    pid = args[0]
    tier = os.environ.get("VERIF_TIER", "quick")
    only = None
    if "--tier" in args:
        tier = args[args.index("--tier") + 1]
    if "--only" in args:
        only = args[args.index("--only") + 1]
    seed = int(os.environ.get("VERIF_SEED", "0") or 0)
    t_start = time.time()
    specs = registry.select(pid, tier)
    if only:
        specs = [s for s in specs if re.search(only, s["crate"] + "/" + s["name"])]
    if not specs:
        print("no harness registered for %s" % pid)
        return 2
    # VERIF_SEED only permutes scheduling (nothing here is random)
    specs.sort(key=lambda s: hashlib.sha256(("%d:%s" % (seed, s["name"])).encode()).hexdigest())
    specs.sort(key=lambda s: -s.get("timeout", 600))  # long jobs first (stable)
    by_crate = {}
    for s in specs:
        by_crate.setdefault(s["crate"], []).append(s)
    metas, build_s, build_err = {}, {}, None
    for crate, ss in by_crate.items():
        try:
            # the GOTO symbol names contain a hash of the *set* of harnesses compiled together;
            # always compile the tier's whole set of the crate, so that the formula of a harness
            # (and with it the result cache key) does not depend on the property being checked
            wanted = set(s["name"] for s in ss)
            for h in registry.H:
                if h["crate"] == crate and (tier == "thorough" or h["tier"] == "quick") and not h["props"][0].startswith("X"):
                    wanted.add(h["name"])
            m, dt = codegen(crate, sorted(wanted), needed=set(s["name"] for s in ss))
            build_s[crate] = round(dt, 1)
            for s in ss:
                metas[(crate, s["name"])] = m[s["name"]]
        except RuntimeError as e:
            build_err = str(e)
            log(build_err)
            break
    results = []
    if not build_err:
        # memory-aware scheduling: every job reserves `mem_reserve` GB (default 4) of a global
        # budget; the hard per-process limit (RLIMIT_AS) is `mem_gb`
        budget = {"free": float(os.environ.get("VERIF_MEM_BUDGET_GB", "54"))}
        cond = threading.Condition()

        def guarded(s, meta):
            need = min(float(s.get("mem_reserve", 4)), budget["free"] if budget["free"] > 0 else 4)
            need = float(s.get("mem_reserve", 4))
            with cond:
                while budget["free"] < need and budget["free"] < float(os.environ.get("VERIF_MEM_BUDGET_GB", "54")):
                    cond.wait()
                budget["free"] -= need
            try:
                return run_harness(s, meta)
            finally:
                with cond:
                    budget["free"] += need
                    cond.notify_all()

        with cf.ThreadPoolExecutor(max_workers=JOBS) as ex:
            futs = {ex.submit(guarded, s, metas[(s["crate"], s["name"])]): s for s in specs}
            for f in cf.as_completed(futs):
                s = futs[f]
                try:
                    r = f.result()
                except Exception as e:  # noqa
                    r = {"harness": s["name"], "crate": s["crate"], "status": "ERROR", "error": repr(e), "props": []}
                results.append(r)
                log("  [%s] %-50s %-10s %6.1fs%s" % (pid, s["crate"] + "/" + s["name"], r["status"], r.get("wall_s", 0),
                                                      " (cached)" if r.get("cached") else ""))
    known, _fixed = load_known()
    spec_by_name = {(s["crate"], s["name"]): s for s in specs}
    violations, known_hits, inconclusive, unreachable, other_fail = [], [], [], [], []
    obligations = discharged = 0
    covers_sat = covers_total = 0
    vccs = vccs_rem = 0
    solver_s = symex_s = 0.0
    funcs = set()
    samples = []
    if build_err:
        inconclusive.append("build/codegen failed: " + build_err[:400])
    for r in sorted(results, key=lambda r: (r["crate"], r["harness"])):
        s = spec_by_name[(r["crate"], r["harness"])]
        r["harness"] = r["crate"] + "/" + r["harness"]
        primary = s["props"][0]
        st = r.get("stats", {})
        vccs += st.get("vccs", 0)
        vccs_rem += st.get("vccs_remaining", 0)
        solver_s += st.get("solver_s", 0)
        symex_s += st.get("symex_s", 0)
        funcs.update(r.get("repo_functions", []))
        if r["status"] in ("TIMEOUT", "OOM", "ERROR"):
            inconclusive.append("%s: %s %s" % (r["harness"], r["status"], r.get("error", "")))
            continue
        mine, mine_ok = 0, 0
        for p in r["props"]:
            if p["class"] == "cover":
                covers_total += 1
                if p["status"] in ("FAILURE", "SATISFIED"):
                    covers_sat += 1
                elif not p["desc"].startswith("opt:") and p["desc"] not in s.get("opt_covers", ()):
                    inconclusive.append("%s: cover goal unsatisfiable or unreachable (vacuity): %s [%s]" % (r["harness"], p["desc"], p["status"]))
                continue
            tags = tagged(p["desc"])
            # A wrong memo entry (value that does not denote the key it is stored under) is a
            # C06 failure *and* a failure of the property the harness is primarily about: the
            # operation whose key it is returns the wrong value in every history that looks the
            # entry up. Kani assumes an asserted condition afterwards, so the harness's own
            # result assertion can no longer fail on that path.
            if tags and p["status"] == "FAILURE" and any(m in p["desc"] for m in MEMO_MARKERS) and primary not in tags:
                tags = tags + [primary]
            relevant = (pid in tags) if tags else (primary == pid)
            if p["class"] == "unwind" and p["status"] == "FAILURE":
                inconclusive.append("%s: unwinding bound too small at %s (%s)" % (r["harness"], p.get("function"), p["desc"]))
                continue
            if p["class"] in ("unsupported_construct", "sanity_check") and p["status"] == "FAILURE":
                inconclusive.append("%s: construct unsupported by Kani reachable: %s" % (r["harness"], p["desc"]))
                continue
            if tags is None and p["desc"].startswith("HARNESS:") and p["status"] == "FAILURE":
                inconclusive.append("%s: harness soundness condition failed: %s" % (r["harness"], p["desc"]))
                continue
            if not relevant:
                if p["status"] == "FAILURE":
                    other_fail.append("%s: %s" % (r["harness"], p["desc"]))
                continue
            obligations += 1
            mine += 1
            if p["status"] == "SUCCESS":
                discharged += 1
                mine_ok += 1
                # vacuity guard: an unreachable tagged assertion *of the harness module itself*
                # (specification code shared between harnesses legitimately has unreachable arms)
                mod = s["name"].split("::")[0] + "::"
                if tags and p.get("reachable") is False and (p.get("function") or "").startswith(mod):
                    unreachable.append("%s: tagged assertion unreachable (vacuous): %s" % (r["harness"], p["desc"]))
            elif p["status"] == "FAILURE":
                k = is_known(known, pid, r["harness"], p["desc"])
                if k:
                    known_hits.append((k, r["harness"], p))
                else:
                    violations.append((s, r, p))
            else:
                inconclusive.append("%s: property %s has status %s" % (r["harness"], p["name"], p["status"]))
        samples.append({"harness": r["harness"], "crate": r["crate"], "unwind": r.get("unwind"), "profile": r.get("profile"),
                        "bounds": s.get("bounds", ""), "checks_for_property": mine, "held": mine_ok,
                        "status": r["status"], "cached": bool(r.get("cached")), "wall_s": round(r.get("wall_s", 0), 1),
                        "stats": st,
                        "example_checks": [p["desc"] for p in r["props"] if p["class"] != "cover" and (tagged(p["desc"]) or [None])[0] is not None and pid in tagged(p["desc"])][:4]})
    inconclusive += unreachable
    # ---- replay candidates
    confirmed, unconfirmed = [], []
    seen = set()
    for s, r, p in violations:
        keyv = (r["harness"], p["desc"])
        if keyv in seen:
            continue
        seen.add(keyv)
        if os.environ.get("VERIF_NO_REPLAY") == "1":
            rdir = os.path.join(REPLAYS, pid, r["harness"].replace("::", ".").replace("/", "."))
            os.makedirs(rdir, exist_ok=True)
            json.dump({"property": pid, "harness": r["harness"], "failed_check": p["desc"], "inputs_in_trace": p.get("trace_inputs", [])},
                      open(os.path.join(rdir, "replay.json"), "w"), indent=1)
            confirmed.append((s, r, p, rdir))
            continue
        # replay at most one counterexample per harness (they share the cause)
        if any(c[1]["harness"] == r["harness"] for c in confirmed):
            confirmed.append((s, r, p, [c[3] for c in confirmed if c[1]["harness"] == r["harness"]][0]))
            continue
        ok, rdir = replay(pid, s, p)
        if ok:
            confirmed.append((s, r, p, rdir))
        else:
            unconfirmed.append((s, r, p, rdir))
            inconclusive.append("%s: counterexample for '%s' did not reproduce natively (%s)" % (r["harness"], p["desc"], rdir))
    for k, h, p in known_hits:
        print("KNOWN-FINDING: property=%s harness=%s %s" % (pid, h, k.get("what", p["desc"])))
    for s, r, p, rdir in confirmed:
        print("VIOLATION property=%s replay=%s" % (pid, rdir))
        print("  harness=%s failed: %s (%s:%s)" % (r["harness"], p["desc"], p.get("file"), p.get("line")))
    for msg in inconclusive:
        print("INCONCLUSIVE: " + msg)
    for msg in other_fail[:20]:
        print("NOTE (check belongs to another property): " + msg)
    wall = time.time() - t_start
    info = registry.PROPS.get(pid, {})
    n_h = len(results)
    ev = {
        "property_id": pid,
        "tier": tier if tier in ("quick", "thorough") else "quick",
        "seed": seed,
        "level": info.get("level", "model_checking"),
        "coverage": {
            "evaluations": max(vccs, obligations),
            "distinct_nontrivial": max(vccs_rem, 0),
            "rule": "one case = one verification condition (VCC) generated by CBMC's symbolic execution of a harness over the "
                    "real code; distinct+non-trivial = VCCs remaining after CBMC's simplification, i.e. those actually decided by "
                    "the SAT solver (measured from CBMC's 'Generated N VCC(s), M remaining' line, summed over harnesses)",
            "samples": samples,
            "harnesses": n_h,
            "obligations": obligations,
            "discharged": discharged,
            "known_findings_hit": len(known_hits),
            "cover_goals": covers_total,
            "cover_goals_satisfied": covers_sat,
            "solver_time_s": round(solver_s, 2),
            "symex_time_s": round(symex_s, 2),
            "codegen_time_s": build_s,
            "functions_encoded": sorted(funcs)[:400],
            "functions_encoded_count": len(funcs),
            "bounds": info.get("bounds", ""),
            "outside_claim": info.get("outside", ""),
            "checker_cmd": "cargo kani --only-codegen; goto-cc; goto-instrument; cbmc %s <harness>.out --json-ui --trace" % " ".join(CBMC_COMMON),
            "trusted_base": ["Kani 0.68 MIR->GOTO translation", "CBMC 6.11 + CaDiCaL", "harness specifications and stub manager in /verif/harness"],
            "inconclusive": inconclusive[:50],
            "explanation": info.get("explanation", ""),
            "exhaustive": False,
        },
        "assumptions": info.get("assumptions", []),
        "wall_s": round(wall, 1),
        "violations": len(confirmed),
    }
    os.makedirs(EVID, exist_ok=True)
    tmp = os.path.join(EVID, "%s.json.tmp%d" % (pid, os.getpid()))
    json.dump(ev, open(tmp, "w"), indent=1)
    os.replace(tmp, os.path.join(EVID, pid + ".json"))
    print("SUMMARY property=%s tier=%s harnesses=%d obligations=%d discharged=%d known=%d violations=%d inconclusive=%d covers=%d/%d solver=%.1fs wall=%.0fs"
          % (pid, tier, n_h, obligations, discharged, len(known_hits), len(confirmed), len(inconclusive), covers_sat, covers_total, solver_s, wall))
    if confirmed:
        return 1
    if inconclusive:
        return 2
    return 0


if __name__ == "__main__":
    sys.exit(main())
