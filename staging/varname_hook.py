#!/usr/bin/env python3
"""Adds the cfg-guarded verification hook to oxidd-core's VarNameMap (feature `verif-hooks`):
with the feature on, the name index is a tiny linear map with the HashMap API subset the file
uses (std's hashbrown map cannot be symbolically executed by CBMC); with the feature off
nothing changes."""
import sys
repo = sys.argv[1] if len(sys.argv) > 1 else "/repo"
p = repo + "/crates/oxidd-core/Cargo.toml"
s = open(p).read()
if "verif-hooks" not in s:
    s = s.rstrip("\n") + '''

[features]
# Verification hooks (used by out-of-tree proof harnesses only). With this feature,
# `VarNameMap` indexes names with a tiny linear map instead of `std::collections::HashMap`
# (same API subset), because the latter cannot be executed symbolically. Off by default.
verif-hooks = []
'''
    open(p, "w").write(s)
p = repo + "/crates/oxidd-core/src/util/var_name_map.rs"
s = open(p).read()
old = "use std::collections::{HashMap, hash_map::Entry};\n"
new = '''#[cfg(not(feature = "verif-hooks"))]
use std::collections::{HashMap, hash_map::Entry};
#[cfg(feature = "verif-hooks")]
use verif_map::{Entry, HashMap};

/// Linear map with the subset of the `HashMap` API used in this file (feature
/// `verif-hooks` only, for out-of-tree proof harnesses)
#[cfg(feature = "verif-hooks")]
mod verif_map {
    use std::borrow::Borrow;

    #[derive(Clone)]
    pub struct HashMap<K, V>(Vec<(K, V)>);

    pub enum Entry<'a, K, V> {
        Occupied(OccupiedEntry<'a, K, V>),
        Vacant(VacantEntry<'a, K, V>),
    }
    pub struct OccupiedEntry<'a, K, V>(&'a mut Vec<(K, V)>, usize);
    pub struct VacantEntry<'a, K, V>(&'a mut Vec<(K, V)>, K);

    impl<K, V> OccupiedEntry<'_, K, V> {
        pub fn get(&self) -> &V {
            &self.0[self.1].1
        }
    }
    impl<'a, K, V> VacantEntry<'a, K, V> {
        pub fn insert(self, value: V) -> &'a mut V {
            self.0.push((self.1, value));
            &mut self.0.last_mut().unwrap().1
        }
    }

    impl<K: Eq, V> HashMap<K, V> {
        pub fn new() -> Self {
            Self(Vec::new())
        }
        pub fn reserve(&mut self, _additional: usize) {}
        pub fn len(&self) -> usize {
            self.0.len()
        }
        pub fn clear(&mut self) {
            self.0.clear()
        }
        pub fn entry(&mut self, key: K) -> Entry<'_, K, V> {
            match self.0.iter().position(|(k, _)| *k == key) {
                Some(i) => Entry::Occupied(OccupiedEntry(&mut self.0, i)),
                None => Entry::Vacant(VacantEntry(&mut self.0, key)),
            }
        }
        pub fn get<Q: ?Sized + Eq>(&self, key: &Q) -> Option<&V>
        where
            K: Borrow<Q>,
        {
            self.0.iter().find(|(k, _)| k.borrow() == key).map(|(_, v)| v)
        }
        pub fn remove<Q: ?Sized + Eq>(&mut self, key: &Q) -> Option<V>
        where
            K: Borrow<Q>,
        {
            let i = self.0.iter().position(|(k, _)| k.borrow() == key)?;
            Some(self.0.swap_remove(i).1)
        }
        pub fn drain(&mut self) -> std::vec::Drain<'_, (K, V)> {
            self.0.drain(..)
        }
    }
}
'''
if old in s and "verif_map" not in s:
    s = s.replace(old, new, 1)
    open(p, "w").write(s)
print("hook applied")
