use oxidd_core::util::VarNameMap;
use oxidd_core::VarNo;

/// model: name of each variable (0 = unnamed, 1 = "a", 2 = "b")
struct Model {
    len: usize,
    names: [u8; 4],
}
fn code(s: &str) -> u8 {
    if s.is_empty() { 0 } else if s == "a" { 1 } else if s == "b" { 2 } else { 3 }
}

/// one symbolically chosen operation; the model is updated according to the documented behaviour
fn step(m: &mut VarNameMap, md: &mut Model) {
    let op: u8 = kani::any();
    kani::assume(op < 6);
    let holder = |md: &Model, c: u8| -> Option<usize> {
        let mut r = None;
        if md.len > 2 && md.names[2] == c { r = Some(2); }
        if md.len > 1 && md.names[1] == c { r = Some(1); }
        if md.len > 0 && md.names[0] == c { r = Some(0); }
        r
    };
    match op {
        0 => {
            if md.len < 3 {
                m.add_unnamed(1);
                md.names[md.len] = 0;
                md.len += 1;
            }
        }
        1 | 2 => {
            if md.len < 3 {
                let c = op; // 1 = "a", 2 = "b"
                let r = if c == 1 { m.add_named(["a"]) } else { m.add_named(["b"]) };
                match holder(md, c) {
                    Some(v) => match r {
                        Err(e) => {
                            assert!(e.present_var == v as VarNo, "C16: a rejected call reports the conflicting variable");
                            assert!(e.added_vars.start == md.len as VarNo && e.added_vars.end == md.len as VarNo, "C16: a rejected call reports the variables it added before the conflict");
                            std::mem::forget(e);
                        }
                        Ok(_) => assert!(false, "C16: adding an already used name is rejected"),
                    },
                    None => {
                        assert!(r.is_ok(), "C16: adding an unused name succeeds");
                        md.names[md.len] = c;
                        md.len += 1;
                    }
                }
            }
        }
        _ => {
            // set_var_name(v, "a" | "b" | "")
            if md.len > 0 {
                let v: usize = kani::any();
                kani::assume(v < md.len);
                let c = op - 3; // 0 = "", 1 = "a", 2 = "b"
                let r = match c { 0 => m.set_var_name(v as VarNo, ""), 1 => m.set_var_name(v as VarNo, "a"), _ => m.set_var_name(v as VarNo, "b") };
                let h = if c == 0 { None } else { holder(md, c) };
                match h {
                    Some(o) if o != v => match r {
                        Err(e) => {
                            assert!(e.present_var == o as VarNo, "C16: a rejected rename reports the conflicting variable");
                            std::mem::forget(e);
                        }
                        Ok(_) => assert!(false, "C16: renaming to a name used by another variable is rejected"),
                    },
                    _ => {
                        assert!(r.is_ok(), "C16: renaming to an unused name (or the own name, or no name) succeeds");
                        md.names[v] = c;
                    }
                }
            }
        }
    }
}

fn check(m: &VarNameMap, md: &Model) {
    assert!(m.len() as usize == md.len, "C16: the map has as many entries as variables");
    let mut named = 0;
    macro_rules! var { ($v:expr) => { if $v < md.len {
        let c = code(m.var_name($v as VarNo));
        assert!(c == md.names[$v], "C16: var_name reports the current name of the variable");
        if c != 0 { named += 1; }
    } } }
    var!(0); var!(1); var!(2);
    assert!(m.named_count() == named, "C16: num_named_vars counts exactly the currently named variables");
    macro_rules! name { ($s:expr, $c:expr) => {{
        let r = m.name_to_var($s);
        let mut want = None;
        if md.len > 2 && md.names[2] == $c { want = Some(2 as VarNo); }
        if md.len > 1 && md.names[1] == $c { want = Some(1 as VarNo); }
        if md.len > 0 && md.names[0] == $c { want = Some(0 as VarNo); }
        assert!(r == want, "C16: name_to_var and var_name are mutually inverse on exactly the currently named variables");
    }} }
    name!("a", 1);
    name!("b", 2);
}

fn seq(k: usize) {
    let mut m = VarNameMap::new();
    let mut md = Model { len: 0, names: [0; 4] };
    if k > 0 { step(&mut m, &mut md); }
    if k > 1 { step(&mut m, &mut md); }
    if k > 2 { step(&mut m, &mut md); }
    if k > 3 { step(&mut m, &mut md); }
    check(&m, &md);
    kani::cover!(md.len >= 2 && md.names[0] != 0 && md.names[1] != 0, "two named variables");
    std::mem::forget(m);
}
#[kani::proof]
#[kani::unwind(6)]
fn varnames_seq2() {
    seq(2)
}
#[kani::proof]
#[kani::unwind(6)]
fn varnames_seq3() {
    seq(3)
}
#[kani::proof]
#[kani::unwind(6)]
fn varnames_seq4() {
    seq(4)
}
