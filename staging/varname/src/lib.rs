//! C16: the real `oxidd_core::util::VarNameMap` (name index = linear map through the
//! `verif-hooks` feature). From-empty operation sequences of bounded length with a symbolic
//! choice of operation at every step; names are concrete per call site ("a", "b", ""), so
//! that every allocation size is concrete.
#![allow(unused, clippy::all)]
#[cfg(kani)]
mod proofs;
