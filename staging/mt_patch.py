#!/usr/bin/env python3
"""C07 (narrow): worker-pool stub for KManager + MT step harnesses (applied after the batch run)."""
import re
base = "/verif/harness/"
p = base + "common/kmanager.rs"
s = open(p).read()
if "KPool" not in s:
    s = s.replace("// ---------------------------------------------------------------- Function plumbing (type level only)", '''// ---------------------------------------------------------------- worker pool (C07, narrow)

/// Stub `WorkerPool`: `join(a, b)` runs the two closures sequentially in an *arbitrary* order
/// (chosen by the solver per call), `split_depth` is an arbitrary small number. Real threads
/// do not exist under Kani; what is decided is that the result of the multi-threaded apply
/// algorithms does not depend on the serialisation order of forked sub-problems and that a
/// failing branch does not leak the sibling's result.
pub struct KPool {
    pub depth: u32,
}
unsafe impl Sync for KPool {}
unsafe impl<'id> Sync for KManager<'id> {}
impl oxidd_core::WorkerPool for KPool {
    fn current_num_threads(&self) -> usize {
        2
    }
    fn split_depth(&self) -> u32 {
        self.depth
    }
    fn set_split_depth(&self, _depth: Option<u32>) {}
    fn install<R: Send>(&self, op: impl FnOnce() -> R + Send) -> R {
        op()
    }
    fn join<RA: Send, RB: Send>(&self, op_a: impl FnOnce() -> RA + Send, op_b: impl FnOnce() -> RB + Send) -> (RA, RB) {
        #[cfg(kani)]
        let a_first: bool = kani::any();
        #[cfg(not(kani))]
        let a_first = true;
        if a_first {
            let a = op_a();
            let b = op_b();
            (a, b)
        } else {
            let b = op_b();
            let a = op_a();
            (a, b)
        }
    }
    fn broadcast<R: Send>(&self, _op: impl Fn(oxidd_core::BroadcastContext) -> R + Sync) -> Vec<R> {
        unimplemented!()
    }
}
impl<'id> oxidd_core::HasWorkers for KManager<'id> {
    type WorkerPool = KPool;
    fn workers(&self) -> &KPool {
        &self.pool
    }
}

// ---------------------------------------------------------------- Function plumbing (type level only)''')
    s = s.replace("    pub cache: KCache,\n    pub x: KExtra,\n}", "    pub cache: KCache,\n    pub x: KExtra,\n    pub pool: KPool,\n}")
    s = s.replace("            cache: $cache,\n            x: $x,\n        }", "            cache: $cache,\n            x: $x,\n            pool: KPool { depth: 1 },\n        }")
    open(p, "w").write(s)
# enable the multi-threading feature of the rule crates
for k, dep in (("bdd", "oxidd-rules-bdd"), ("bcdd", "oxidd-rules-bdd")):
    p = base + k + "/Cargo.toml"
    t = open(p).read()
    t = t.replace('features = ["simple"]', 'features = ["simple", "multi-threading"]').replace('features = ["complement-edge"]', 'features = ["complement-edge", "multi-threading"]')
    open(p, "w").write(t)
p = base + "zbdd/Cargo.toml"
t = open(p).read()
t = t.replace('oxidd-rules-zbdd = { path = "/repo/crates/oxidd-rules-zbdd", default-features = false }', 'oxidd-rules-zbdd = { path = "/repo/crates/oxidd-rules-zbdd", default-features = false, features = ["multi-threading"] }')
open(p, "w").write(t)
# MT harnesses (bdd, bcdd): same specs through the *MT function types
mt = '''
// ---------------------------------------------------------------- C07 (narrow): multi-threaded apply algorithms
pub mod mt {
    use super::*;
    pub type B = %s<KFunc>;
    /// `depth`: split depth of the pool (1 = the top-level step forks, sub-calls are sequential)
    macro_rules! mt_bin {
        ($name:ident, $f:ident, $spec:expr) => {
            #[kani::proof]
            #[kani::unwind(3)]
            fn $name() {
                let mut s = setup_n(RANK_BIN, 3, AL_BIN);
                s.pool.depth = kani::any();
                kani::assume(s.pool.depth <= 2);
                let f = sym::any_edge(&s, s.init_c.get());
                let g = sym::any_edge(&s, s.init_c.get());
                s.cache.top_level = s.min_level(&[f.borrowed(), g.borrowed()]);
                let spec: fn(G, G) -> G = $spec;
                let want = spec(s.g(&f), s.g(&g));
                let r = B::$f(&s, &f, &g);
                post_struct(&s, &r);
                if let Ok(e) = &r {
                    assert!(s.g(e) == want, "C07,C02: the multi-threaded algorithm returns the specified function for every serialisation of its fork/join");
                }
                covers(&s, &r);
            }
        };
    }
    mt_bin!(mt_and, and_edge, |a, b| a & b);
    mt_bin!(mt_xor, xor_edge, |a, b| a ^ b);
    #[kani::proof]
    #[kani::unwind(3)]
    fn mt_ite() {
        let mut s = setup_n(RANK_ITE, 3, AL_ITE);
        s.cache.miss_arity = 3;
        s.pool.depth = kani::any();
        kani::assume(s.pool.depth <= 2);
        let f = sym::any_edge(&s, s.init_c.get());
        let g = sym::any_edge(&s, s.init_c.get());
        let h = sym::any_edge(&s, s.init_c.get());
        s.cache.top_level = s.min_level(&[f.borrowed(), g.borrowed(), h.borrowed()]);
        let (a, b, c) = (s.g(&f), s.g(&g), s.g(&h));
        let r = B::ite_edge(&s, &f, &g, &h);
        post_struct(&s, &r);
        if let Ok(e) = &r {
            assert!(s.g(e) == (a & b) | (!a & c), "C07,C02: the multi-threaded ite returns the specified function for every serialisation of its fork/join");
        }
        covers(&s, &r);
    }
}
'''
for k, ty, imp in (("bdd", "oxidd_rules_bdd::simple::BDDFunctionMT", None), ("bcdd", "oxidd_rules_bdd::complement_edge::BCDDFunctionMT", None)):
    p = base + k + "/src/proofs.rs"
    t = open(p).read()
    if "pub mod mt" not in t:
        t += mt % ty
        open(p, "w").write(t)
# registry
p = "/verif/registry.py"
r = open(p).read()
if "proofs::mt::mt_and" not in r:
    r = r.replace("STEP_NOTE = ", '''# ---------------------------------------------------------------- C07 (narrow)
for kind in ["bdd", "bcdd"]:
    for hn in ["mt_and", "mt_xor", "mt_ite"]:
        add(kind, "proofs::mt::" + hn, ["C07", "C14", "C05"], timeout=2400, mem_reserve=8,
            bounds="one recursion step of the multi-threaded algorithm (real ParallelRecursor) over a stub pool: both serialisations of the fork/join, split depth 0..2, <=3 pre-existing nodes, 3 levels, symbolic capacity")

STEP_NOTE = ''', 1)
    open(p, "w").write(r)
print("mt patch applied")
