#!/usr/bin/env python3
"""(a) base harness for constants / var / not_var / eval / cofactors (BDD, BCDD; arbitrary order),
(b) apply_quant terminal-case delegation harness (a delegated quantification runs as the real
top-level step and may run out of memory), (c) RawTable retain harness."""
base = "/verif/harness/"
p = base + "common/boolstep.rs"
s = open(p).read()
if "base_var_eval" not in s:
    s += '''

// ---------------------------------------------------------------- constants, variables, eval, cofactors (C02)
macro_rules! base_var_eval {
    ($name:ident) => {
        #[kani::proof]
        #[kani::unwind(6)]
        fn $name() {
            let s = setup_order(0, 3, &[]);
            assert!(s.g(&B::f_edge(&s)) == 0, "C02: f is false under every assignment");
            assert!(s.g(&B::t_edge(&s)) == !0, "C02: t is true under every assignment");
            let var: VarNo = kani::any();
            kani::assume((var as usize) < L);
            let l = s.var2level[var as usize] as usize;
            let which: u8 = kani::any();
            if which == 0 {
                let r = B::var_edge(&s, var);
                if let Ok(e) = &r {
                    assert!(s.g(e) == MASK[l], "C02: var(v) is true exactly under the assignments with v = 1 (under the current variable order)");
                }
                post_struct(&s, &r);
                kani::cover!(r.is_ok() && s.created.get() == 1, "variable node created");
            } else if which == 1 {
                let r = B::not_var_edge(&s, var);
                if let Ok(e) = &r {
                    assert!(s.g(e) == !MASK[l], "C02: not_var(v) is true exactly under the assignments with v = 0");
                }
                post_struct(&s, &r);
            } else if which == 2 {
                // eval against the ghost table, all variables given
                let f = sym::any_edge(&s, s.init_c.get());
                let vals: [bool; L] = k_any_bools_step();
                let mut a = 0usize; // assignment index by *level*
                macro_rules! lv { ($v:expr) => { if $v < L && vals[$v] { a |= 1 << (s.var2level[$v] as usize); } } }
                lv!(0); lv!(1); lv!(2); lv!(3);
                let got = B::eval_edge(&s, &f, k_args(&vals));
                assert!(got == ((s.g(&f) >> a) & 1 == 1), "C02: eval agrees with the node-by-node interpretation of the diagram under the current variable order");
                kani::cover!(got && !f.is_terminal(), "eval of an inner node to true");
            } else {
                let f = sym::any_edge(&s, s.init_c.get());
                match B::cofactors_edge(&s, &f) {
                    Some((t, e)) => {
                        let lf = s.level_of(&f) as usize;
                        assert!(lf < L && s.g(&t) == cof1(s.g(&f), lf) && s.g(&e) == cof0(s.g(&f), lf), "C02: cofactors are the two Shannon cofactors w.r.t. the top-most variable");
                    }
                    None => assert!(f.is_terminal(), "C02: only constants have no cofactors"),
                }
            }
        }
    };
}
pub fn k_any_bools_step() -> [bool; L] {
    let mut a = [false; L];
    macro_rules! e { ($i:expr) => { if $i < L { a[$i] = kani::any(); } } }
    e!(0); e!(1); e!(2); e!(3);
    a
}
pub fn k_args(vals: &[bool; L]) -> [(VarNo, bool); L] {
    let mut a = [(0, false); L];
    macro_rules! e { ($i:expr) => { if $i < L { a[$i] = ($i as VarNo, vals[$i]); } } }
    e!(0); e!(1); e!(2); e!(3);
    a
}

// ---------------------------------------------------------------- apply_quant: delegated terminal cases (C04, C05, C14)
/// One operand is a constant, so that the inner operator's terminal case applies and
/// apply_quant delegates to `not` + quantification / plain quantification. Here the lookup of
/// the delegated *quantification* (two operands) is the one that misses, i.e. the
/// quantification runs as the real top-level step and can run out of memory, which is what
/// exposes results that are not released on the error path.
macro_rules! step_apply_quant_deleg {
    ($name:ident, $f:ident, $q:expr, $bop:expr, $mi:expr, $spec:expr) => {
        #[kani::proof]
        #[kani::unwind(6)]
        fn $name() {
            use oxidd_core::function::BooleanFunctionQuant;
            let mut s = setup_n(RANK_APPLY_QUANT, $mi, al_apply_quant($q, $bop));
            s.cache.miss_arity = 2;
            let f = sym::any_edge(&s, s.init_c.get());
            let g = sym::any_edge(&s, s.init_c.get());
            let v = sym::any_edge(&s, s.init_c.get());
            kani::assume(f.is_terminal() || g.is_terminal());
            kani::assume(is_pos_cube(s.g(&v)) && s.g(&v) != 0);
            s.cache.top_level = 0;
            s.cache.top_rank = RANK_APPLY_QUANT;
            let spec: fn(G, G) -> G = $spec;
            let want = quant_tt($q, spec(s.g(&f), s.g(&g)), s.g(&v));
            let r = B::$f(&s, $bop, &f, &g, &v);
            post_q(&s, &r, want);
            kani::cover!(r.is_err(), "out-of-memory inside the delegated operation");
            kani::cover!(r.is_ok() && s.created.get() > 0, "delegated operation creates a node");
        }
    };
}
'''
    open(p, "w").write(s)
for k in ("bdd", "bcdd"):
    p = base + k + "/src/proofs.rs"
    t = open(p).read()
    if "base_var_eval!" not in t:
        t = t.replace("lemma_canonical!(lemma_canonical);", '''lemma_canonical!(lemma_canonical);
base_var_eval!(base_var_eval);
step_apply_quant_deleg!(step_apply_exists_and_deleg, apply_exists_edge, Q::Exists, BooleanOperator::And, 4, |a, b| a & b);
step_apply_quant_deleg!(step_apply_exists_xor_deleg, apply_exists_edge, Q::Exists, BooleanOperator::Xor, 4, |a, b| a ^ b);
step_apply_quant_deleg!(step_apply_forall_nand_deleg, apply_forall_edge, Q::Forall, BooleanOperator::Nand, 4, |a, b| !(a & b));''')
        open(p, "w").write(t)
# measure: the delegated quantification has rank QUANT < APPLY_QUANT; fine.
# (c) RawTable retain
p = base + "hashtbl/src/proofs.rs"
t = open(p).read()
if "step_retain" not in t:
    t += '''

/// retain with an arbitrary predicate (bit mask over the keys): keeps exactly the accepted
/// elements, calls `drop` exactly once for each rejected one, preserves the invariant
/// (this is the kernel of the unique tables' garbage collection). The table holds at most 4
/// elements, i.e. the shrink path `reserve_rehash(0)` is part of the run whenever fewer than
/// 4 elements remain.
#[kani::proof]
#[kani::unwind(18)]
fn step_retain() {
    let (mut t, p, h) = any_table();
    let keep: u8 = kani::any();
    let dropped = std::cell::Cell::new(0u8);
    let twice = std::cell::Cell::new(false);
    t.retain(
        |x| keep & (1 << (*x & 7)) != 0,
        |x| {
            let b = 1u8 << (x & 7);
            if dropped.get() & b != 0 {
                twice.set(true);
            }
            dropped.set(dropped.get() | b);
        },
    );
    assert!(!twice.get(), "C17,C05: retain drops every rejected element exactly once");
    let w = any_key();
    let was = present(&p, w);
    let acc = keep & (1 << w) != 0;
    assert!((dropped.get() & (1 << w) != 0) == (was && !acc), "C17,C05: exactly the rejected elements are dropped");
    assert!(t.slots() == SLOTS || t.slots() == 0, "C17: a 16-slot table stays at the minimal capacity");
    if t.slots() == SLOTS {
        let p2 = parts_of(&t);
        assert!(inv(&p2, t.len(), t.verif_free(), &h), "C17: representation invariant preserved by retain (incl. shrink/rehash)");
        assert!(present(&p2, w) == (was && acc), "C17: retain keeps exactly the elements accepted by the predicate");
    } else {
        assert!(!(was && acc), "C17: an empty table after retain means nothing was accepted");
    }
    kani::cover!(t.len() >= 2 && dropped.get() != 0, "some kept, some dropped");
    std::mem::forget(t);
}
'''
    open(p, "w").write(t)
p = "/verif/registry.py"
r = open(p).read()
if "base_var_eval" not in r:
    r = r.replace('''    add(kind, "proofs::lemma_canonical", ["C01"], timeout=1500,''', '''    add(kind, "proofs::base_var_eval", ["C02", "C03", "C05", "C14"], timeout=1500,
        bounds="constants, var, not_var, eval (all variables given), cofactors on an arbitrary well-formed %s with <=3 nodes over 3 levels under an arbitrary variable order" % K)
    for dn in ["exists_and", "exists_xor", "forall_nand"]:
        add(kind, "proofs::step_apply_%s_deleg" % dn, ["C04", "C05", "C14", "C06"], timeout=2400, mem_reserve=8,
            bounds="apply_%s with one constant operand (terminal-case delegation); the delegated quantification is the real top-level step; <=4 pre-existing nodes, 3 levels, symbolic capacity" % dn)
    add(kind, "proofs::lemma_canonical", ["C01"], timeout=1500,''', 1)
    r = r.replace('for hn in ["step_find_get", "step_insert_free5", "step_insert_free12", "step_remove"]:\n    add("hashtbl", "proofs::" + hn, ["C17"], profile="full", timeout=2400, bounds=HB)', 'for hn in ["step_find_get", "step_insert_free5", "step_insert_free12", "step_remove"]:\n    add("hashtbl", "proofs::" + hn, ["C17"], profile="full", timeout=2400, bounds=HB)\nadd("hashtbl", "proofs::step_retain", ["C17", "C05"], profile="full", timeout=3000, mem_reserve=10, mem_gb=14, bounds=HB + "; retain with an arbitrary predicate incl. the shrink/rehash path")')
    for k in ("bdd", "bcdd"):
        pass
    r = r.replace('"bdd": {"step_and", "step_xor", "step_not", "step_ite", "step_exists", "step_apply_exists_and", "base_pick_cube_dd", "probe_child0_by_ref", "lemma_canonical"},', '"bdd": {"step_and", "step_xor", "step_not", "step_ite", "step_exists", "step_apply_exists_and", "step_apply_exists_and_deleg", "step_apply_exists_xor_deleg", "base_pick_cube_dd", "base_var_eval", "probe_child0_by_ref", "lemma_canonical"},')
    r = r.replace('"bcdd": {"step_and", "step_xor", "step_ite", "step_forall", "step_apply_unique_nand", "base_pick_cube_dd_set", "probe_child0_by_ref", "lemma_canonical"},', '"bcdd": {"step_and", "step_xor", "step_ite", "step_forall", "step_apply_unique_nand", "step_apply_exists_and_deleg", "base_pick_cube_dd_set", "base_var_eval", "probe_child0_by_ref", "lemma_canonical"},')
    open(p, "w").write(r)
print("patch2 applied")
