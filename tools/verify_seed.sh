#!/bin/bash
# verify_seed.sh <ID>  — confirm a seeded change produced in /tmp/wt/<ID> with deliverables in /tmp/seed/<ID>
# (demo fails with the change, passes without; existing suite passes with the change)
ID=$1
WT=/tmp/wt/$ID
SD=/tmp/seed/$ID
export CARGO_TARGET_DIR=$WT/target CARGO_NET_OFFLINE=true
cd $WT || exit 2
git checkout -q -- . 2>/dev/null
DEMO=$(git status --porcelain | grep '^??' | awk '{print $2}' | grep -v '^target' | head -5)
echo "untracked (demo) files: $DEMO"
DEMOCMD=$(grep -E "cargo test" $SD/demo_cmd.txt | head -1 | sed 's/^[`$ ]*//; s/`.*$//')
echo "demo cmd: $DEMOCMD"
echo "== demo WITHOUT change"
( eval "$DEMOCMD" ) > $SD/v_demo_without.log 2>&1; echo "rc=$?" | tee -a $SD/v_demo_without.log
git apply $SD/patch.diff || { echo "PATCH DOES NOT APPLY"; exit 3; }
echo "== demo WITH change"
( eval "$DEMOCMD" ) > $SD/v_demo_with.log 2>&1; echo "rc=$?" | tee -a $SD/v_demo_with.log
echo "== suite WITH change (demo moved aside)"
mkdir -p /tmp/seed/$ID/aside; for f in $DEMO; do mv $f /tmp/seed/$ID/aside/; done
cargo test --workspace --no-fail-fast --offline > $SD/v_suite_with.log 2>&1; echo "rc=$?" | tee -a $SD/v_suite_with.log
grep -E "^test result" $SD/v_suite_with.log | awk '{p+=$4; f+=$6} END {print "suite passed="p" failed="f}'
git checkout -q -- .
