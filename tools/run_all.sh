#!/bin/bash
# run_all.sh [tier] [props...] — run the registered checks sequentially, one log per property under /tmp/all
TIER=${1:-quick}; shift
PROPS=${@:-C15 C17 C12 C08 C10 C11 C09 C13 C07 C02 C04 C01 C03 C05 C06 C14}
mkdir -p /tmp/all
cd /verif
for p in $PROPS; do
  s=$(date +%s)
  ./check $p --tier $TIER > /tmp/all/$p.log 2>&1
  rc=$?
  echo "$p rc=$rc wall=$(( $(date +%s) - s ))s $(grep SUMMARY /tmp/all/$p.log | cut -c1-200)" >> /tmp/all/summary.txt
done
echo DONE >> /tmp/all/summary.txt
