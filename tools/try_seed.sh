#!/bin/bash
# try_seed.sh <seed-dir-name> <property> [--only <regex>] [--tier quick|thorough]
# Applies a seeded change to /repo, runs the property's check, and restores /repo.
# Prints the check's verdict lines; exit code = exit code of the check.
SEED=$1; PROP=$2; shift 2
cd /repo || exit 9
if ! git diff --quiet; then echo "refusing: /repo has uncommitted changes"; exit 9; fi
git apply /verif/seeded/$SEED/patch.diff || { echo "patch does not apply"; exit 9; }
cd /verif
mkdir -p /tmp/seedruns
LOG=/tmp/seedruns/$SEED.$PROP.log
mkdir -p /tmp/seedruns/evidence
VERIF_EVIDENCE_DIR=/tmp/seedruns/evidence VERIF_NO_CACHE=0 ./check $PROP "$@" > $LOG 2>&1
rc=$?
git -C /repo checkout -- .
grep -E "^VIOLATION|^  harness=|^KNOWN|^INCONCLUSIVE|^SUMMARY" $LOG | cut -c1-260 | head -20
echo "exit=$rc"
exit $rc
