#!/usr/bin/env python3
"""Regenerate /verif/MANIFEST.json from registry.py (claimed properties, n/a list)."""
import json, os, sys
VERIF = os.path.dirname(os.path.dirname(os.path.abspath(__file__)))
sys.path.insert(0, VERIF)
import registry

props = [json.loads(l) for l in open(os.path.join(VERIF, "properties.jsonl"))]
checks, na = [], []
for p in props:
    pid = p["id"]
    info = registry.PROPS.get(pid)
    has = any(pid in h["props"] for h in registry.H)
    if info is None or not has or info.get("not_applicable"):
        reason = (info or {}).get("not_applicable") or registry.NOT_APPLICABLE.get(pid, "no solver-based check built for this property yet")
        na.append({"property_id": pid, "reason": reason})
        continue
    checks.append({
        "property_id": pid,
        "quick_cmd": "./check %s --tier quick" % pid,
        "thorough_cmd": "./check %s --tier thorough" % pid,
        "evidence_file": "/verif/evidence/%s.json" % pid,
        "replay_cmd_template": "cd {path} && cargo kani playback -Z concrete-playback -- kani_concrete_playback",
        "engine": "kani-cbmc",
        "level_claimed": {
            "category": info.get("level", "model_checking"),
            "text": info["claim"],
            "design_ref": info.get("design_ref", "DESIGN.md §2 " + pid),
        },
        "level_note": info.get("note", ""),
        "technique": info.get("technique", "bounded model checking of the compiled Rust code (Kani 0.68 -> CBMC 6.11, CaDiCaL)"),
    })
man = {
    "version": 1,
    "setup_cmd": "./setup.sh",
    "hooks": {
        "guard": "verif-hooks",
        "enable": "cargo feature `verif-hooks` of linear-hashtbl, oxidd-reorder and oxidd-dump (off by default; enabled only by the path dependencies of the harness crates /verif/harness/{hashtbl,reorder,dddmp}/Cargo.toml)",
        "baseline_off_cmd": "cd /repo && cargo nextest run --workspace --no-fail-fast --test-threads 8 --offline || cargo test --workspace --no-fail-fast --offline",
        "source_commits": registry.HOOK_COMMITS,
        "add_only": True,
    },
    "engines": [
        {"name": "kani-cbmc", "path": "/verif/lib/driver.py", "serves_properties": [c["property_id"] for c in checks],
         "kind_free_text": "Kani 0.68 MIR->GOTO codegen of harness crates with path dependencies on /repo/crates/*, then goto-cc / goto-instrument / cbmc 6.11 (CaDiCaL) per harness in parallel; counterexamples replayed natively by Kani concrete playback"},
    ],
    "checks": checks,
    "not_applicable": na,
    "notes": "Exit codes of ./check: 0 held, 1 VIOLATION (natively replayed), 2 inconclusive (timeout/OOM/unwinding bound/vacuity/unreplayable). See DESIGN.md.",
}
json.dump(man, open(os.path.join(VERIF, "MANIFEST.json"), "w"), indent=1)
print("claimed:", [c["property_id"] for c in checks])
print("n/a:", [n["property_id"] for n in na])
