#!/bin/bash
# run_seeds.sh [tier] [filter-regex] — run every seeded change against the quick (or given) tier of the
# property it breaks, restricted (to keep a sweep within hours) to the quick-tier harnesses of that property that exercise the changed function.
# One line per seed in /tmp/seedruns/summary.txt: exit 1 = caught (VIOLATION, replayed natively),
# 0 = missed, 2 = inconclusive.
TIER=${1:-quick}; FILTER=${2:-.}
mkdir -p /tmp/seedruns
while read -r seed prop only; do
  [ -z "$seed" ] && continue
  echo "$seed" | grep -Eq "$FILTER" || continue
  s=$(date +%s)
  out=$(/verif/tools/try_seed.sh "$seed" "$prop" --only "$only" --tier $TIER 2>&1)
  rc=$(echo "$out" | grep -o "exit=[0-9]*" | tail -1)
  viol=$(echo "$out" | grep -E "^  harness=" | head -2 | cut -c1-200 | tr '\n' ';')
  echo "$seed $prop tier=$TIER only=$only $rc wall=$(( $(date +%s) - s ))s $viol" >> /tmp/seedruns/summary.txt
done <<LIST
C02-bcdd-var-level-mixup C02 bcdd/proofs::base_var_eval
C02b-bcdd-ite-f-cofactor-level-test C02 bcdd/proofs::step_ite
C03-bcdd-ite-level-typo C03 bcdd/proofs::step_ite
C04b-bcdd-apply-quant-cache-add-popped-vars C04 bcdd/proofs::step_apply
C05-bdd-apply-quant-done-leak-on-oom C05 bdd/proofs::step_apply
C05b-mtbdd-apply-bin-dropguards-removed C05 mtbdd/proofs::step_add
C05b-mtbdd-apply-bin-dropguards-removed C14 mtbdd/proofs::step_add
C06-bdd-quant-cache-key-popped-vars C06 bdd/proofs::step_(exists|forall|unique|apply)
C06b-dmcache-numeric-operand-not-compared C06 bdd/cache_proofs
C08-concurrent-bubble-sort-off-by-one C08 reorder/
C09-zbdd-subset-cache-key-level-vs-var C09 zbdd/proofs::step_subset
C09b-zbdd-singleton-level-to-var C09 zbdd/proofs::base_constructors
C10-mtbdd-sub-commutative-cache-key C10 mtbdd/proofs::step_sub
C10b-mtbdd-sub-self-shortcut C10 mtbdd/proofs::step_sub
C11-tdd-imp-commutative-cache-key C11 tdd/proofs::step_imp
C11b-tdd-xor-unknown-absorbing C11 tdd/proofs::step_xor
C12-natural-add-dropped-carry C12 kernels/natural
C13-zbdd-pick-cube-dd-dontcare-child C13 zbdd/proofs::base_pick_cube
C13b-bcdd-pick-cube-dd-set-literal-set-then-cofactor C13 bcdd/proofs::base_pick_cube_dd_set
C14-bdd-apply-quant-not-leak-on-oom C14 bdd/proofs::step_apply
C17-rawtable-remove-free-before-tombstone C17 hashtbl/proofs::step_remove
C17b-rawtable-reserve-ignores-tombstones C17 hashtbl/proofs::step_insert
C01-rawtable-retain-free-instead-of-tombstone C17 hashtbl/
C04-bcdd-restrict-stale-parity C04 bcdd/proofs::step_(forall|exists|unique)$
LIST
echo DONE >> /tmp/seedruns/summary.txt
