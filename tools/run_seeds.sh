#!/bin/bash
# run_seeds.sh [tier] [filter-regex] — run every seeded change against the quick (or given) tier of the
# property it breaks, restricted to the harness crate of the diagram kind it touches.
# One line per seed in /tmp/seedruns/summary.txt: exit 1 = caught (VIOLATION, replayed natively),
# 0 = missed, 2 = inconclusive.
TIER=${1:-quick}; FILTER=${2:-.}
mkdir -p /tmp/seedruns
while read -r seed prop only; do
  [ -z "$seed" ] && continue
  echo "$seed" | grep -Eq "$FILTER" || continue
  s=$(date +%s)
  out=$(/verif/tools/try_seed.sh "$seed" "$prop" --only "$only" --tier $TIER 2>&1)
  rc=$(echo "$out" | grep -o "exit=[0-9]*" | tail -1)
  viol=$(echo "$out" | grep -E "^  harness=" | head -2 | cut -c1-200 | tr '\n' ';')
  echo "$seed $prop tier=$TIER only=$only $rc wall=$(( $(date +%s) - s ))s $viol" >> /tmp/seedruns/summary.txt
done <<LIST
C02-bcdd-var-level-mixup C02 bcdd/
C02b-bcdd-ite-f-cofactor-level-test C02 bcdd/
C03-bcdd-ite-level-typo C03 bcdd/
C04-bcdd-restrict-stale-parity C04 bcdd/
C04b-bcdd-apply-quant-cache-add-popped-vars C04 bcdd/
C05-bdd-apply-quant-done-leak-on-oom C05 bdd/
C05b-mtbdd-apply-bin-dropguards-removed C05 mtbdd/
C05b-mtbdd-apply-bin-dropguards-removed C14 mtbdd/
C06-bdd-quant-cache-key-popped-vars C06 bdd/
C06b-dmcache-numeric-operand-not-compared C06 bdd/cache
C08-concurrent-bubble-sort-off-by-one C08 reorder/
C09-zbdd-subset-cache-key-level-vs-var C09 zbdd/
C09b-zbdd-singleton-level-to-var C09 zbdd/
C10-mtbdd-sub-commutative-cache-key C10 mtbdd/
C10b-mtbdd-sub-self-shortcut C10 mtbdd/
C11-tdd-imp-commutative-cache-key C11 tdd/
C11b-tdd-xor-unknown-absorbing C11 tdd/
C12-natural-add-dropped-carry C12 kernels/
C13-zbdd-pick-cube-dd-dontcare-child C13 zbdd/
C13b-bcdd-pick-cube-dd-set-literal-set-then-cofactor C13 bcdd/
C14-bdd-apply-quant-not-leak-on-oom C14 bdd/
C17-rawtable-remove-free-before-tombstone C17 hashtbl/
C17b-rawtable-reserve-ignores-tombstones C17 hashtbl/
C01-rawtable-retain-free-instead-of-tombstone C17 hashtbl/
LIST
echo DONE >> /tmp/seedruns/summary.txt
