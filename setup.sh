#!/bin/sh
# Offline setup: nothing to fetch; warm the harness build directories (dependencies of /repo compiled for Kani).
set -e
cd "$(dirname "$0")"
mkdir -p .build evidence replays
export CARGO_NET_OFFLINE=true
python3 -c "import sys; sys.path.insert(0,'.'); import registry; print('harness crates:', sorted(registry.CRATES))"
exit 0
