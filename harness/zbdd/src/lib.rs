//! Kani harnesses: real `oxidd-rules-zbdd` algorithms over the stub `KManager`.
#![allow(unused, clippy::all)]

pub mod kind {
    use super::*;
    use oxidd_rules_zbdd::{ZBDDCache, ZBDDOp, ZBDDRules, ZBDDTerminal};

    pub const ARITY: usize = 2;
    pub const NTERM: usize = 2;
    /// 3 slots are taken by the tautology chain
    pub const N: usize = 8;
    pub const L: usize = 3;
    pub const K_TAGS: bool = false;

    pub type KTag = ();
    pub type KTerminal = ZBDDTerminal;
    pub type KTermRef<'a> = ZBDDTerminal;
    pub type KRules = ZBDDRules;
    pub type KOp = ZBDDOp;

    /// ghost semantics: the family of sets as a table, bit `s` = "the set whose
    /// members are the levels in the bit mask `s` belongs to the family".
    /// The Boolean-function view (membership = satisfying assignment) is the same table.
    pub type G = u8;
    pub const MASK: [G; L] = [0xAA, 0xCC, 0xF0];

    pub struct KExtra {
        pub zc: ZBDDCache<KEdge>,
    }
    pub fn k_extra_none() -> KExtra {
        KExtra { zc: ZBDDCache::new() }
    }
    impl<'id> AsRef<ZBDDCache<KEdge>> for KManager<'id> {
        fn as_ref(&self) -> &ZBDDCache<KEdge> {
            &self.x.zc
        }
    }
    impl<'id> AsMut<ZBDDCache<KEdge>> for KManager<'id> {
        fn as_mut(&mut self) -> &mut ZBDDCache<KEdge> {
            &mut self.x.zc
        }
    }

    #[inline(always)]
    pub fn k_extra_wf(_m: &KManager) -> bool {
        true
    }
    #[inline(always)]
    pub fn k_collect(mut it: impl Iterator<Item = KEdge>) -> [KEdge; ARITY] {
        let a = it.next().unwrap_or(KEdge(0));
        let b = it.next().unwrap_or(KEdge(0));
        [a, b]
    }
    #[inline(always)]
    pub fn k_drop_children(ch: [KEdge; ARITY], f: impl Fn(KEdge)) {
        let [a, b] = ch;
        f(a);
        f(b);
    }
    pub fn k_slots(b: fn() -> std::cell::UnsafeCell<KNode>) -> [std::cell::UnsafeCell<KNode>; N] {
        [b(), b(), b(), b(), b(), b(), b(), b()]
    }
    /// Empty = {} ; Base = { {} }
    #[inline(always)]
    pub fn g_terminal(_m: &KManager, id: u32) -> G {
        if id == 1 { 1 } else { 0 }
    }
    /// node (level l, hi, lo) = lo  ∪  { s ∪ {l} : s ∈ hi }
    #[inline(always)]
    pub fn g_node(m: &KManager, level: LevelNo, ch: &[KEdge; ARITY]) -> G {
        (m.g(&ch[0]) << (1u32 << level)) | m.g(&ch[1])
    }
    #[inline(always)]
    pub fn g_tagged(g: G, _t: bool) -> G {
        g
    }
    #[inline(always)]
    pub fn k_terminal_ref<'a>(_m: &'a KManager, id: u32) -> ZBDDTerminal {
        if id == 1 { ZBDDTerminal::Base } else { ZBDDTerminal::Empty }
    }
    #[inline(always)]
    pub fn k_get_terminal(_m: &KManager, t: ZBDDTerminal) -> AllocResult<u32> {
        Ok(t as u32)
    }
    #[inline(always)]
    pub fn k_terminal_in_use(_m: &KManager, _id: u32) -> bool {
        true
    }
    #[inline(always)]
    pub fn k_canonical_edge(_m: &KManager, _e: &KEdge) -> bool {
        true
    }
    #[inline(always)]
    pub fn k_same_fn(a: G, b: G) -> bool {
        a == b
    }
    #[inline(always)]
    pub fn k_is_terminal_fn(_m: &KManager, g: G) -> bool {
        g == 0 || g == 1
    }
    /// zero-suppression rule: hi != Empty
    #[inline(always)]
    pub fn k_reduced(_m: &KManager, _l: LevelNo, ch: &[KEdge; ARITY]) -> bool {
        ch[0].0 != 0
    }

    include!("../../common/tt.rs");

    // family operations on tables
    #[inline(always)]
    pub fn subset1_tt(f: G, l: usize) -> G {
        (f & MASK[l]) >> (1 << l)
    }
    #[inline(always)]
    pub fn subset0_tt(f: G, l: usize) -> G {
        f & !MASK[l]
    }
    #[inline(always)]
    pub fn change_tt(f: G, l: usize) -> G {
        ((f & MASK[l]) >> (1 << l)) | ((f & !MASK[l]) << (1 << l))
    }

    pub const RANK_SUBSET: u32 = 1;
    pub fn k_rank(op: ZBDDOp) -> u32 {
        use ZBDDOp::*;
        match op {
            Union | Intsec | Diff | SymmDiff | Subset0 | Subset1 | Change => RANK_BIN,
            Ite => RANK_ITE,
            _ => RANK_RESTRICT,
        }
    }
    pub fn k_spec(m: &KManager, op: ZBDDOp, ops: &[Borrowed<KEdge>], nums: &[u32]) -> G {
        use ZBDDOp::*;
        let a = m.g(&ops[0]);
        let b = if ops.len() > 1 { m.g(&ops[1]) } else { 0 };
        let c = if ops.len() > 2 { m.g(&ops[2]) } else { 0 };
        match op {
            Union | Intsec | Diff | SymmDiff => {
                assert!(ops.len() == 2 && nums.len() == 0, "C06: cache key arity matches the operator");
                match op { Union => a | b, Intsec => a & b, Diff => a & !b, _ => a ^ b }
            }
            Subset0 | Subset1 | Change => {
                assert!(ops.len() == 1 && nums.len() == 1, "C06: cache key arity matches the operator");
                assert!((nums[0] as usize) < L, "C09: subset/change recursion is keyed by a valid variable number");
                let l = m.var2level[(nums[0] as usize).min(L - 1)] as usize;
                match op { Subset0 => subset0_tt(a, l), Subset1 => subset1_tt(a, l), _ => change_tt(a, l) }
            }
            Ite => {
                assert!(ops.len() == 3 && nums.len() == 0, "C06: cache key arity matches the operator");
                (a & b) | (!a & c)
            }
            _ => {
                assert!(false, "HARNESS: operator not modelled by the ZBDD oracle");
                0
            }
        }
    }
    /// `r` is a correct value for the cache key (op, ops, nums)
    #[inline(always)]
    pub fn k_sem_ok(m: &KManager, op: KOp, ops: &[Borrowed<KEdge>], nums: &[u32], r: &KEdge) -> bool {
        m.g(r) == k_spec(m, op, ops, nums)
    }
}
use kind::*;

include!("../../common/kmanager.rs");

#[cfg(kani)]
mod proofs;
