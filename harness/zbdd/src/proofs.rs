//! Step harnesses (one recursion step, oracle apply cache) for the ZBDD rules.
use super::*;
use oxidd_core::function::{BooleanFunction, BooleanVecSet};
use oxidd_core::ManagerEventSubscriber;
use oxidd_rules_zbdd::{ZBDDCache, ZBDDFunction, ZBDDOp, ZBDDTerminal};

pub type B = ZBDDFunction<KFunc>;
/// slots taken by the tautology chain
const BASE: usize = L;

pub type Setup = KManager<'static>;

/// The tautology chain is built by the *real* `ZBDDCache::post_reorder_mut` on the empty
/// stub (concrete control flow); then `init <= max_init` further nodes are symbolic.
pub const AL_SET: &[KOp] = &[ZBDDOp::Union, ZBDDOp::Intsec, ZBDDOp::Diff, ZBDDOp::SymmDiff, ZBDDOp::Ite];
pub const AL_SUBSET: &[KOp] = &[ZBDDOp::Subset0, ZBDDOp::Subset1, ZBDDOp::Change];
pub fn setup_z(top_rank: u32, max_init: usize, order: ([LevelNo; L], [VarNo; L])) -> Setup {
    setup_za(top_rank, max_init, order, AL_SET)
}
pub fn setup_za(top_rank: u32, max_init: usize, order: ([LevelNo; L], [VarNo; L]), allowed: &'static [KOp]) -> Setup {
    let mut m: KManager<'static> = k_new_manager!(N, KCache::miss(), k_extra_none(), order);
    <ZBDDCache<KEdge> as ManagerEventSubscriber<KManager<'static>>>::post_reorder_mut(&mut m);
    assert!(m.len.get() == BASE, "HARNESS: tautology chain occupies L slots");
    m.cache = KCache::step(top_rank, 0);
    m.cache.set_allowed(allowed);
    let init: usize = kani::any();
    kani::assume(init <= max_init);
    let cap: usize = kani::any();
    kani::assume(cap >= BASE + init && cap <= N);
    sym::havoc(&m, BASE, init, max_init, cap, true);
    m
}
pub fn any_edge_z(s: &Setup) -> KEdge {
    sym::any_edge(s, s.init_c.get())
}

pub fn post_struct(s: &Setup, r: &AllocResult<KEdge>) {
    let m = s;
    assert!(m.wf(), "C01,C03: diagram stays ordered, reduced (zero-suppressed) and duplicate-free");
    assert!(m.ghost_ok(), "C03: pre-existing nodes are unchanged (semantics of every node preserved)");
    match r {
        Ok(e) => {
            assert!((e.id() as usize) < NTERM + m.len.get(), "C01: result is a valid edge");
            let exp = if e.id() == m.watch { 1 } else { 0 } + m.new_parent_refs();
            assert!(m.wrc.get() == exp, "C05: net reference change = +1 for the returned handle + edges stored in newly created nodes, 0 on every other node");
        }
        Err(_) => {
            assert!(m.oom.get(), "C14: out-of-memory is only reported when an allocation actually failed");
            assert!(m.wrc.get() == m.new_parent_refs(), "C14,C05: a failed operation releases every reference it acquired");
        }
    }
}
pub fn post(s: &Setup, r: &AllocResult<KEdge>, want: G) {
    post_struct(s, r);
    if let Ok(e) = r {
        assert!(s.g(e) == want, "C09,C02: result is exactly the specified family / Boolean function");
    }
}
pub fn covers(s: &Setup, r: &AllocResult<KEdge>) {
    kani::cover!(s.cache.adds.get() > 0 && r.is_ok(), "non-terminal path with cache insertion");
    kani::cover!(s.cache.hits.get() >= 1, "oracle consulted");
    kani::cover!(s.created.get() > 0, "node created");
    kani::cover!(r.is_err(), "out-of-memory path");
}

macro_rules! zstep_bin {
    ($name:ident, $f:ident, $mi:expr, $spec:expr) => {
        zstep_bin!($name, $f, $mi, $spec, RANK_BIN, 0);
    };
    // `$rank`: rank of the operation in the induction measure; `$arity`: see KCache::miss_arity
    ($name:ident, $f:ident, $mi:expr, $spec:expr, $rank:expr, $arity:expr) => {
        #[kani::proof]
        #[kani::unwind(5)]
        fn $name() {
            let mut s = setup_z($rank, $mi, sym::id_order());
            s.cache.miss_arity = $arity;
            let f = any_edge_z(&s);
            let g = any_edge_z(&s);
            s.cache.top_level = s.min_level(&[f.borrowed(), g.borrowed()]);
            if $arity == 3 {
                // imp(f, g) = ite(f, g, tautology): the tautology node sits on the top-most level
                s.cache.top_level = 0;
            }
            let spec: fn(G, G) -> G = $spec;
            let want = spec(s.g(&f), s.g(&g));
            let r = B::$f(&s, &f, &g);
            post(&s, &r, want);
            covers(&s, &r);
        }
    };
}
// set-family view
zstep_bin!(step_union, union_edge, 2, |a, b| a | b);
zstep_bin!(step_intsec, intsec_edge, 2, |a, b| a & b);
zstep_bin!(step_diff, diff_edge, 2, |a, b| a & !b);
zstep_bin!(step_union_n3, union_edge, 3, |a, b| a | b);
zstep_bin!(step_intsec_n3, intsec_edge, 3, |a, b| a & b);
zstep_bin!(step_diff_n3, diff_edge, 3, |a, b| a & !b);
zstep_bin!(step_xor_n3, xor_edge, 3, |a, b| a ^ b);
// Boolean view (same tables; complement = all 2^L assignments)
zstep_bin!(step_and, and_edge, 2, |a, b| a & b);
zstep_bin!(step_or, or_edge, 2, |a, b| a | b);
zstep_bin!(step_xor, xor_edge, 2, |a, b| a ^ b);
zstep_bin!(step_imp, imp_edge, 2, |a, b| !a | b, RANK_ITE, 3);
zstep_bin!(step_imp_strict, imp_strict_edge, 2, |a, b| !a & b);

#[kani::proof]
#[kani::unwind(5)]
fn step_not() {
    let mut s = setup_z(RANK_BIN, 2, sym::id_order());
    let f = any_edge_z(&s);
    s.cache.top_level = 0;
    let want = !s.g(&f);
    let r = B::not_edge(&s, &f);
    post(&s, &r, want);
    covers(&s, &r);
}
#[kani::proof]
#[kani::unwind(5)]
fn step_ite() {
    let mut s = setup_z(RANK_ITE, 2, sym::id_order());
    s.cache.miss_arity = 3;
    let f = any_edge_z(&s);
    let g = any_edge_z(&s);
    let h = any_edge_z(&s);
    s.cache.top_level = s.min_level(&[f.borrowed(), g.borrowed(), h.borrowed()]);
    let (a, b, c) = (s.g(&f), s.g(&g), s.g(&h));
    let r = B::ite_edge(&s, &f, &g, &h);
    post(&s, &r, (a & b) | (!a & c));
    covers(&s, &r);
}

macro_rules! zstep_subset {
    ($name:ident, $f:ident, $mi:expr, $spec:expr) => {
        #[kani::proof]
        #[kani::unwind(5)]
        fn $name() {
            let mut s = setup_za(RANK_BIN, $mi, sym::any_order(), AL_SUBSET);
            let f = any_edge_z(&s);
            let var: VarNo = kani::any();
            kani::assume((var as usize) < L);
            s.cache.top_level = s.min_level(&[f.borrowed()]);
            let spec: fn(G, usize) -> G = $spec;
            let want = spec(s.g(&f), s.var2level[var as usize] as usize);
            let r = B::$f(&s, &f, var);
            post(&s, &r, want);
            covers(&s, &r);
        }
    };
}
zstep_subset!(step_subset0, subset0_edge, 2, subset0_tt);
zstep_subset!(step_subset0_n3, subset0_edge, 3, subset0_tt);
zstep_subset!(step_subset1, subset1_edge, 2, subset1_tt);
zstep_subset!(step_subset1_n3, subset1_edge, 3, subset1_tt);
zstep_subset!(step_change, change_edge, 2, change_tt);
zstep_subset!(step_change_n3, change_edge, 3, change_tt);

/// constants, singleton, var, make_node (no recursion through the cache)
#[kani::proof]
#[kani::unwind(5)]
fn base_constructors() {
    let s = setup_z(RANK_BIN, 2, sym::any_order());
    assert!(s.g(&B::empty_edge(&s)) == 0, "C09: empty is the empty family");
    assert!(s.g(&B::base_edge(&s)) == 1, "C09: base is the family containing only the empty set");
    assert!(s.g(&B::f_edge(&s)) == 0, "C02: f is false under every assignment");
    assert!(s.g(&B::t_edge(&s)) == !0, "C02: t is true under every assignment");
    let var: VarNo = kani::any();
    kani::assume((var as usize) < L);
    let l = s.var2level[var as usize] as usize;
    let which: u8 = kani::any();
    if which == 0 {
        let r = B::singleton_edge(&s, var);
        if let Ok(e) = &r {
            assert!(s.g(e) == 1 << (1usize << l), "C09: singleton(v) is the family containing exactly the set consisting of v");
        }
        assert!(s.wf(), "C03: diagram well-formed after singleton");
    } else if which == 1 {
        let r = B::var_edge(&s, var);
        if let Ok(e) = &r {
            assert!(s.g(e) == MASK[l], "C02,C09: var(v) is true exactly under the assignments with v = 1");
        }
        assert!(s.wf(), "C03: diagram well-formed after var");
        kani::cover!(r.is_ok(), "var succeeds");
        kani::cover!(r.is_err(), "var runs out of memory");
    } else {
        // make_node(var, hi, lo) for operands below `var`
        let sv = B::singleton_edge(&s, var);
        if let Ok(sv) = sv {
            let hi = any_edge_z(&s);
            let lo = any_edge_z(&s);
            kani::assume(s.level_of(&hi) > l as LevelNo && s.level_of(&lo) > l as LevelNo);
            let want = (s.g(&hi) << (1usize << l)) | s.g(&lo);
            let (hi2, lo2) = (s.clone_edge(&hi), s.clone_edge(&lo));
            let r = oxidd_rules_zbdd::make_node(&s, &sv, hi2, lo2);
            if let Ok(e) = &r {
                assert!(s.g(e) == want, "C09: make_node(v, hi, lo) is lo united with all sets of hi extended by v");
            }
            assert!(s.wf(), "C03: diagram well-formed after make_node");
            kani::cover!(r.is_ok(), "make_node succeeds");
        }
    }
}
/// C01(a): canonicity lemma for ZBDDs
#[kani::proof]
#[kani::unwind(5)]
fn lemma_canonical() {
    let mut m: KManager<'static> = k_new_manager!(N, KCache::miss(), k_extra_none(), sym::id_order());
    <ZBDDCache<KEdge> as ManagerEventSubscriber<KManager<'static>>>::post_reorder_mut(&mut m);
    let init: usize = kani::any();
    kani::assume(init <= 4);
    sym::havoc(&m, BASE, init, 4, N, false);
    assert!(m.ghost_distinct(BASE + init), "C01: reduced + ordered + unique implies distinct nodes denote distinct non-terminal families");
    let e1 = sym::any_edge(&m, m.init_c.get());
    let e2 = sym::any_edge(&m, m.init_c.get());
    assert!((m.g(&e1) == m.g(&e2)) == (e1 == e2), "C01: handles compare equal iff they denote the same function");
    kani::cover!(init == 4 && e1 != e2, "full diagram, distinct edges");
}

// ---------------------------------------------------------------- C13 cube picking
include!("../../common/pickcube.rs");
fn mk_pick(mi: usize) -> Setup {
    setup_z(0, mi.min(3), sym::id_order())
}
pick_cube_harnesses!(mk_pick, any_edge_z);

/// CBMC pitfall regression probe (see common/kmanager.rs): a node's first child read through
/// a reference with a symbolic node index must agree with the assumed well-formedness
#[kani::proof]
#[kani::unwind(5)]
fn probe_child0_by_ref() {
    let s = setup_z(0, 3, sym::id_order());
    let i: usize = kani::any();
    kani::assume(i < s.init_c.get());
    let n = s.node(i);
    use oxidd_core::InnerNode;
    let c = n.child(0);
    assert!(((c.0 & !TAG_BIT) as usize) < NTERM + s.init_c.get(), "HARNESS: first child read through a reference agrees with the assumed well-formedness");
    assert!(s.wf_node(i), "HARNESS: well-formedness of a symbolically indexed node follows from the assumption");
    kani::cover!(s.init_c.get() >= 2 && i == 1, "second node");
}
