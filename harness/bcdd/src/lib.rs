//! Kani harnesses: real `oxidd-rules-bdd::complement_edge` algorithms over the stub `KManager`.
#![allow(unused, clippy::all)]

pub mod kind {
    use super::*;
    use oxidd_rules_bdd::complement_edge::{BCDDOp, BCDDRules, BCDDTerminal, EdgeTag};

    pub const ARITY: usize = 2;
    pub const NTERM: usize = 1;
    #[cfg(not(feature = "l4"))]
    pub const N: usize = 6;
    #[cfg(feature = "l4")]
    pub const N: usize = 8;
    #[cfg(not(feature = "l4"))]
    pub const L: usize = 3;
    #[cfg(feature = "l4")]
    pub const L: usize = 4;
    pub const K_TAGS: bool = true;

    pub type KTag = EdgeTag;
    pub type KTerminal = BCDDTerminal;
    pub type KTermRef<'a> = BCDDTerminal;
    pub type KRules = BCDDRules;
    pub type KOp = BCDDOp;

    #[cfg(not(feature = "l4"))]
    pub type G = u8;
    #[cfg(feature = "l4")]
    pub type G = u16;
    #[cfg(not(feature = "l4"))]
    pub const MASK: [G; L] = [0xAA, 0xCC, 0xF0];
    #[cfg(feature = "l4")]
    pub const MASK: [G; L] = [0xAAAA, 0xCCCC, 0xF0F0, 0xFF00];

    pub type KExtra = SubstGhost;
    pub fn k_extra_none() -> KExtra {
        SubstGhost::none()
    }

    #[inline(always)]
    pub fn k_extra_wf(_m: &KManager) -> bool {
        true
    }
    #[inline(always)]
    pub fn k_collect(mut it: impl Iterator<Item = KEdge>) -> [KEdge; ARITY] {
        let a = it.next().unwrap_or(KEdge(0));
        let b = it.next().unwrap_or(KEdge(0));
        [a, b]
    }
    #[inline(always)]
    pub fn k_drop_children(ch: [KEdge; ARITY], f: impl Fn(KEdge)) {
        let [a, b] = ch;
        f(a);
        f(b);
    }
    pub fn k_slots(b: fn() -> std::cell::UnsafeCell<KNode>) -> [std::cell::UnsafeCell<KNode>; N] {
        #[cfg(not(feature = "l4"))]
        return [b(), b(), b(), b(), b(), b()];
        #[cfg(feature = "l4")]
        return [b(), b(), b(), b(), b(), b(), b(), b()];
    }
    /// the only terminal is "true"; "false" is the complemented edge to it
    #[inline(always)]
    pub fn g_terminal(_m: &KManager, _id: u32) -> G {
        !0
    }
    #[inline(always)]
    pub fn g_node(m: &KManager, level: LevelNo, ch: &[KEdge; ARITY]) -> G {
        let k = MASK[level as usize];
        (m.g(&ch[0]) & k) | (m.g(&ch[1]) & !k)
    }
    #[inline(always)]
    pub fn g_tagged(g: G, t: bool) -> G {
        if t { !g } else { g }
    }
    #[inline(always)]
    pub fn k_terminal_ref<'a>(_m: &'a KManager, _id: u32) -> BCDDTerminal {
        BCDDTerminal
    }
    #[inline(always)]
    pub fn k_get_terminal(_m: &KManager, _t: BCDDTerminal) -> AllocResult<u32> {
        Ok(0)
    }
    #[inline(always)]
    pub fn k_terminal_in_use(_m: &KManager, _id: u32) -> bool {
        true
    }
    #[inline(always)]
    pub fn k_canonical_edge(_m: &KManager, _e: &KEdge) -> bool {
        true
    }
    #[inline(always)]
    pub fn k_same_fn(a: G, b: G) -> bool {
        a == b || a == !b
    }
    #[inline(always)]
    pub fn k_is_terminal_fn(_m: &KManager, g: G) -> bool {
        g == 0 || g == !0
    }
    /// BCDD reduction rules: then != else, then-edge uncomplemented
    #[inline(always)]
    pub fn k_reduced(_m: &KManager, _l: LevelNo, ch: &[KEdge; ARITY]) -> bool {
        ch[0].0 != ch[1].0 && !ch[0].tagged()
    }

    include!("../../common/tt.rs");

    pub fn k_rank(op: BCDDOp) -> u32 {
        use BCDDOp::*;
        match op {
            And | Xor => RANK_BIN,
            Ite => RANK_ITE,
            Restrict => RANK_RESTRICT,
            Forall | Exists | Unique => RANK_QUANT,
            Substitute => RANK_SUBST,
            _ => RANK_APPLY_QUANT,
        }
    }
    /// Specification of a cache key: the truth table its value must have
    pub fn k_spec(m: &KManager, op: BCDDOp, ops: &[Borrowed<KEdge>], nums: &[u32]) -> G {
        use BCDDOp::*;
        let a = m.g(&ops[0]);
        let b = if ops.len() > 1 { m.g(&ops[1]) } else { 0 };
        let c = if ops.len() > 2 { m.g(&ops[2]) } else { 0 };
        match op {
            And | Xor => {
                assert!(ops.len() == 2 && nums.len() == 0, "C06: cache key arity matches the operator");
                if let And = op { a & b } else { a ^ b }
            }
            Ite => {
                assert!(ops.len() == 3 && nums.len() == 0, "C06: cache key arity matches the operator");
                (a & b) | (!a & c)
            }
            Restrict => {
                assert!(ops.len() == 2 && nums.len() == 0, "C06: cache key arity matches the operator");
                assert!(is_cube(b), "C04: restrict recursion keeps a cube of literals as second operand");
                restrict_tt(a, b)
            }
            Forall | Exists | Unique => {
                assert!(ops.len() == 2 && nums.len() == 0, "C06: cache key arity matches the operator");
                assert!(is_pos_cube(b), "C04: quantifier recursion keeps a positive cube as variable set");
                quant_tt(match op { Forall => Q::Forall, Exists => Q::Exists, _ => Q::Unique }, a, b)
            }
            Substitute => {
                assert!(ops.len() == 1 && nums.len() == 1, "C06: cache key arity matches the operator");
                assert!(nums[0] == m.x.subst_id, "C06,C04: substitution results are keyed by the id of the substitution in use");
                subst_tt(a, &m.x.subst_g, m.x.subst_len)
            }
            _ => {
                assert!(ops.len() == 3 && nums.len() == 0, "C06: cache key arity matches the operator");
                assert!(is_pos_cube(c), "C04: quantifier recursion keeps a positive cube as variable set");
                match op {
                    ForallAnd => quant_tt(Q::Forall, a & b, c),
                    ForallXor => quant_tt(Q::Forall, a ^ b, c),
                    ExistAnd => quant_tt(Q::Exists, a & b, c),
                    ExistXor => quant_tt(Q::Exists, a ^ b, c),
                    UniqueAnd => quant_tt(Q::Unique, a & b, c),
                    UniqueNand => quant_tt(Q::Unique, !(a & b), c),
                    _ => quant_tt(Q::Unique, a ^ b, c),
                }
            }
        }
    }
    /// `r` is a correct value for the cache key (op, ops, nums)
    #[inline(always)]
    pub fn k_sem_ok(m: &KManager, op: KOp, ops: &[Borrowed<KEdge>], nums: &[u32], r: &KEdge) -> bool {
        m.g(r) == k_spec(m, op, ops, nums)
    }
}
use kind::*;

include!("../../common/kmanager.rs");

#[cfg(kani)]
mod proofs;
