//! Step harnesses (one recursion step, oracle apply cache) for the complement-edge BDD (BCDD) rules.
use super::*;
use oxidd_rules_bdd::complement_edge::{BCDDFunction, BCDDOp, BCDDTerminal, EdgeTag};

pub type B = BCDDFunction<KFunc>;

include!("../../common/boolstep.rs");

use BCDDOp::*;
pub const AL_BIN: &[KOp] = &[And, Xor];
pub const AL_NOT: &[KOp] = &[And, Xor];
pub const AL_ITE: &[KOp] = &[Ite, And, Xor];
pub const AL_RESTRICT: &[KOp] = &[Restrict];
pub const AL_SUBST: &[KOp] = &[Substitute, Ite, And, Xor];
pub fn al_quant(q: Q) -> &'static [KOp] {
    // the complement-edge rules dualise: forall f = not exists not f
    match q {
        Q::Unique => &[Unique, And, Xor],
        _ => &[Forall, Exists, And, Xor],
    }
}
pub fn al_apply_quant(q: Q, o: BooleanOperator) -> &'static [KOp] {
    // the internal operator the dispatcher maps (quantifier, operator) to (dualisation table)
    match (q, o) {
        (Q::Forall, BooleanOperator::And) => &[ForallAnd, Forall, Exists, And, Xor],
        (Q::Forall, BooleanOperator::Or) => &[ExistAnd, Forall, Exists, And, Xor],
        (Q::Forall, BooleanOperator::Xor) => &[ForallXor, Forall, Exists, And, Xor],
        (Q::Forall, BooleanOperator::Equiv) => &[ExistXor, Forall, Exists, And, Xor],
        (Q::Forall, BooleanOperator::Nand) => &[ExistAnd, Forall, Exists, And, Xor],
        (Q::Forall, BooleanOperator::Nor) => &[ForallAnd, Forall, Exists, And, Xor],
        (Q::Forall, BooleanOperator::Imp) => &[ExistAnd, Forall, Exists, And, Xor],
        (Q::Forall, BooleanOperator::ImpStrict) => &[ForallAnd, Forall, Exists, And, Xor],
        (Q::Exists, BooleanOperator::And) => &[ExistAnd, Forall, Exists, And, Xor],
        (Q::Exists, BooleanOperator::Or) => &[ForallAnd, Forall, Exists, And, Xor],
        (Q::Exists, BooleanOperator::Xor) => &[ExistXor, Forall, Exists, And, Xor],
        (Q::Exists, BooleanOperator::Equiv) => &[ForallXor, Forall, Exists, And, Xor],
        (Q::Exists, BooleanOperator::Nand) => &[ForallAnd, Forall, Exists, And, Xor],
        (Q::Exists, BooleanOperator::Nor) => &[ExistAnd, Forall, Exists, And, Xor],
        (Q::Exists, BooleanOperator::Imp) => &[ForallAnd, Forall, Exists, And, Xor],
        (Q::Exists, BooleanOperator::ImpStrict) => &[ExistAnd, Forall, Exists, And, Xor],
        (Q::Unique, BooleanOperator::And) => &[UniqueAnd, Unique, And, Xor],
        (Q::Unique, BooleanOperator::Or) => &[UniqueNand, Unique, And, Xor],
        (Q::Unique, BooleanOperator::Xor) => &[UniqueXor, Unique, And, Xor],
        (Q::Unique, BooleanOperator::Equiv) => &[UniqueXor, Unique, And, Xor],
        (Q::Unique, BooleanOperator::Nand) => &[UniqueNand, Unique, And, Xor],
        (Q::Unique, BooleanOperator::Nor) => &[UniqueAnd, Unique, And, Xor],
        (Q::Unique, BooleanOperator::Imp) => &[UniqueNand, Unique, And, Xor],
        (Q::Unique, BooleanOperator::ImpStrict) => &[UniqueAnd, Unique, And, Xor],
    }
}

step_bin_all!(4,
    step_and, and_edge, |a, b| a & b;
    step_or, or_edge, |a, b| a | b;
    step_nand, nand_edge, |a, b| !(a & b);
    step_nor, nor_edge, |a, b| !(a | b);
    step_xor, xor_edge, |a, b| a ^ b;
    step_equiv, equiv_edge, |a, b| !(a ^ b);
    step_imp, imp_edge, |a, b| !a | b;
    step_imp_strict, imp_strict_edge, |a, b| !a & b;
);
step_bin_all!(5,
    step_and_n5, and_edge, |a, b| a & b;
    step_or_n5, or_edge, |a, b| a | b;
    step_nand_n5, nand_edge, |a, b| !(a & b);
    step_nor_n5, nor_edge, |a, b| !(a | b);
    step_xor_n5, xor_edge, |a, b| a ^ b;
    step_equiv_n5, equiv_edge, |a, b| !(a ^ b);
    step_imp_n5, imp_edge, |a, b| !a | b;
    step_imp_strict_n5, imp_strict_edge, |a, b| !a & b;
);
step_not!(step_not, 5);
step_ite!(step_ite, 4);
step_ite!(step_ite_n5, 5);
step_restrict!(step_restrict, 4, 2, 4);
step_restrict!(step_restrict_l3, 4, 3, 5);
step_quant!(step_forall, forall_edge, Q::Forall, 4);
step_quant!(step_exists, exists_edge, Q::Exists, 4);
step_quant!(step_unique, unique_edge, Q::Unique, 4);
step_quant!(step_forall_n5, forall_edge, Q::Forall, 5);
step_quant!(step_exists_n5, exists_edge, Q::Exists, 5);
step_quant!(step_unique_n5, unique_edge, Q::Unique, 5);
step_apply_quant_8!(apply_forall_edge, Q::Forall, 2, step_apply_forall_and, step_apply_forall_or, step_apply_forall_nand,
    step_apply_forall_nor, step_apply_forall_xor, step_apply_forall_equiv, step_apply_forall_imp, step_apply_forall_imp_strict);
step_apply_quant_8!(apply_exists_edge, Q::Exists, 2, step_apply_exists_and, step_apply_exists_or, step_apply_exists_nand,
    step_apply_exists_nor, step_apply_exists_xor, step_apply_exists_equiv, step_apply_exists_imp, step_apply_exists_imp_strict);
step_apply_quant_8!(apply_unique_edge, Q::Unique, 2, step_apply_unique_and, step_apply_unique_or, step_apply_unique_nand,
    step_apply_unique_nor, step_apply_unique_xor, step_apply_unique_equiv, step_apply_unique_imp, step_apply_unique_imp_strict);
lemma_canonical!(lemma_canonical);
base_var_eval!(base_var_eval);
step_apply_quant_deleg!(step_apply_exists_and_deleg, apply_exists_edge, Q::Exists, BooleanOperator::And, 4, |a, b| a & b);
step_apply_quant_deleg!(step_apply_exists_xor_deleg, apply_exists_edge, Q::Exists, BooleanOperator::Xor, 4, |a, b| a ^ b);
step_apply_quant_deleg!(step_apply_forall_nand_deleg, apply_forall_edge, Q::Forall, BooleanOperator::Nand, 4, |a, b| !(a & b));
step_substitute!(step_substitute_v0, 3, 1, 0, 0);


// ---------------------------------------------------------------- C13 cube picking
include!("../../common/pickcube.rs");
fn mk_pick(mi: usize) -> Setup {
    setup_n(0, mi, &[])
}
fn any_edge_pick(s: &Setup) -> KEdge {
    sym::any_edge(s, s.init_c.get())
}
pick_cube_harnesses!(mk_pick, any_edge_pick);

/// CBMC pitfall regression probe: a node's first child read through a reference, symbolic node index
#[kani::proof]
#[kani::unwind(3)]
fn probe_child0_by_ref() {
    let s = mk_pick(4);
    let i: usize = kani::any();
    kani::assume(i < s.init_c.get());
    let n = s.node(i);
    use oxidd_core::InnerNode;
    let c = n.child(0);
    assert!(((c.0 & !TAG_BIT) as usize) < NTERM + s.init_c.get(), "HARNESS: first child read through a reference agrees with the assumed well-formedness");
    assert!(s.wf_node(i), "HARNESS: well-formedness of a symbolically indexed node follows from the assumption");
    kani::cover!(s.init_c.get() == 2, "init 2 reachable");
    kani::cover!(s.init_c.get() == 4, "init 4 reachable");
}

// ---------------------------------------------------------------- C07 (narrow): multi-threaded apply algorithms
pub mod mt {
    use super::*;
    pub type B = oxidd_rules_bdd::complement_edge::BCDDFunctionMT<KFunc>;
    /// `depth`: split depth of the pool (1 = the top-level step forks, sub-calls are sequential)
    macro_rules! mt_bin {
        ($name:ident, $f:ident, $spec:expr) => {
            #[kani::proof]
            #[kani::unwind(3)]
            fn $name() {
                let mut s = setup_n(RANK_BIN, 3, AL_BIN);
                s.pool.depth = kani::any();
                kani::assume(s.pool.depth <= 2);
                let f = sym::any_edge(&s, s.init_c.get());
                let g = sym::any_edge(&s, s.init_c.get());
                s.cache.top_level = s.min_level(&[f.borrowed(), g.borrowed()]);
                let spec: fn(G, G) -> G = $spec;
                let want = spec(s.g(&f), s.g(&g));
                let r = B::$f(&s, &f, &g);
                post_struct(&s, &r);
                if let Ok(e) = &r {
                    assert!(s.g(e) == want, "C07,C02: the multi-threaded algorithm returns the specified function for every serialisation of its fork/join");
                }
                kani::cover!(s.cache.adds.get() > 0 && r.is_ok(), "non-terminal path with cache insertion");
                kani::cover!(s.cache.hits.get() >= 1, "oracle consulted");
                kani::cover!(s.created.get() > 0, "node created");
                kani::cover!(r.is_err(), "out-of-memory path");
            }
        };
    }
    mt_bin!(mt_and, and_edge, |a, b| a & b);
    mt_bin!(mt_xor, xor_edge, |a, b| a ^ b);
}
