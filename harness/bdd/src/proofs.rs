//! Step harnesses (one recursion step, oracle apply cache) for the simple BDD rules.
use super::*;
use oxidd_core::function::{BooleanFunction, BooleanFunctionQuant, BooleanOperator, FunctionSubst};
use oxidd_rules_bdd::simple::{BDDFunction, BDDOp, BDDTerminal};

pub type B = BDDFunction<KFunc>;

/// number of nodes in the symbolic pre-state (concrete upper bound, symbolic actual number)
const INIT: usize = N - 1;

/// NOTE: the manager must be returned *bare*: wrapping it into another struct
/// and returning that by value makes CBMC lose the `assume(wf)` facts (probe dbg5).
pub type Setup = KManager<'static>;

/// arbitrary well-formed diagram with `init <= INIT` nodes, arbitrary node
/// capacity `cap` in `init ..= N` (every allocation can be the failing one)
pub fn setup(top_rank: u32) -> Setup {
    setup_n(top_rank, INIT)
}
/// same with at most `max_init` (concrete) pre-existing nodes
pub fn setup_n(top_rank: u32, max_init: usize) -> Setup {
    let init: usize = kani::any();
    kani::assume(init <= max_init);
    let cap: usize = kani::any();
    kani::assume(cap >= init && cap <= N);
    sym::any_manager(init, max_init, cap, KCache::step(top_rank, 0), KExtra::none(), sym::id_order())
}

/// Post-conditions common to every operation (success or out-of-memory)
pub fn post(s: &Setup, r: &AllocResult<KEdge>, want: G) {
    let m = s;
    assert!(m.wf(), "C01,C03: diagram stays ordered, reduced and duplicate-free");
    assert!(m.ghost_ok(), "C03: pre-existing nodes are unchanged (semantics of every node preserved)");
    match r {
        Ok(e) => {
            assert!(m.g(e) == want, "C02: result denotes the specified function");
            // exact reference counting: +1 on the result, 0 everywhere else
            let exp = if e.id() == m.watch { 1 } else { 0 } + m.new_parent_refs();
            assert!(m.wrc.get() == exp, "C05: net reference change = +1 for the returned handle + edges stored in newly created nodes, 0 on every other node");
        }
        Err(_) => {
            assert!(m.oom.get(), "C14: out-of-memory is only reported when an allocation actually failed");
            assert!(m.wrc.get() == m.new_parent_refs(), "C14,C05: a failed operation releases every reference it acquired");
        }
    }
}

macro_rules! step_bin {
    ($name:ident, $f:ident, $op:expr) => {
        step_bin!($name, $f, $op, 4);
    };
    ($name:ident, $f:ident, $op:expr, $mi:expr) => {
        #[kani::proof]
        #[kani::unwind(3)]
        fn $name() {
            let mut s = setup_n(RANK_BIN, $mi);
            let f = sym::any_edge(&s, s.init);
            let g = sym::any_edge(&s, s.init);
            s.cache.top_level = s.min_level(&[f.borrowed(), g.borrowed()]);
            let want = bin_spec($op, s.g(&f), s.g(&g));
            let r = B::$f(&s, &f, &g);
            post(&s, &r, want);
            kani::cover!(s.cache.adds.get() > 0 && r.is_ok(), "non-terminal path with cache insertion");
            kani::cover!(s.cache.hits.get() >= 2, "oracle consulted for both cofactors");
            kani::cover!(s.created.get() > 0, "node created");
            kani::cover!(r.is_err(), "out-of-memory path");
        }
    };
}
step_bin!(step_and, and_edge, BDDOp::And);
step_bin!(step_or, or_edge, BDDOp::Or);
step_bin!(step_nand, nand_edge, BDDOp::Nand);
step_bin!(step_nor, nor_edge, BDDOp::Nor);
step_bin!(step_xor, xor_edge, BDDOp::Xor);
step_bin!(step_equiv, equiv_edge, BDDOp::Equiv);
step_bin!(step_imp, imp_edge, BDDOp::Imp);
step_bin!(step_imp_strict, imp_strict_edge, BDDOp::ImpStrict);
step_bin!(step_and_n5, and_edge, BDDOp::And, 5);
step_bin!(step_or_n5, or_edge, BDDOp::Or, 5);
step_bin!(step_nand_n5, nand_edge, BDDOp::Nand, 5);
step_bin!(step_nor_n5, nor_edge, BDDOp::Nor, 5);
step_bin!(step_xor_n5, xor_edge, BDDOp::Xor, 5);
step_bin!(step_equiv_n5, equiv_edge, BDDOp::Equiv, 5);
step_bin!(step_imp_n5, imp_edge, BDDOp::Imp, 5);
step_bin!(step_imp_strict_n5, imp_strict_edge, BDDOp::ImpStrict, 5);

#[kani::proof]
#[kani::unwind(3)]
fn step_not() {
    let mut s = setup(RANK_NOT);
    let f = sym::any_edge(&s, s.init);
    s.cache.top_level = s.min_level(&[f.borrowed()]);
    let want = !s.g(&f);
    let r = B::not_edge(&s, &f);
    post(&s, &r, want);
    kani::cover!(s.cache.adds.get() > 0 && r.is_ok(), "non-terminal path with cache insertion");
    kani::cover!(s.created.get() > 0, "node created");
    kani::cover!(r.is_err(), "out-of-memory path");
}

fn covers(s: &Setup, r: &AllocResult<KEdge>) {
    kani::cover!(s.cache.adds.get() > 0 && r.is_ok(), "non-terminal path with cache insertion");
    kani::cover!(s.cache.hits.get() >= 2, "oracle consulted at least twice");
    kani::cover!(s.created.get() > 0, "node created");
    kani::cover!(r.is_err(), "out-of-memory path");
}

// ---------------------------------------------------------------- ITE
#[kani::proof]
#[kani::unwind(3)]
fn step_ite() {
    let mut s = setup_n(RANK_ITE, 4);
    let f = sym::any_edge(&s, s.init);
    let g = sym::any_edge(&s, s.init);
    let h = sym::any_edge(&s, s.init);
    s.cache.top_level = s.min_level(&[f.borrowed(), g.borrowed(), h.borrowed()]);
    let (a, b, c) = (s.g(&f), s.g(&g), s.g(&h));
    let r = B::ite_edge(&s, &f, &g, &h);
    post(&s, &r, (a & b) | (!a & c));
    covers(&s, &r);
}

// ---------------------------------------------------------------- restrict / quantification
#[kani::proof]
#[kani::unwind(6)]
fn step_restrict() {
    let mut s = setup(RANK_RESTRICT);
    let f = sym::any_edge(&s, s.init);
    let v = sym::any_edge(&s, s.init);
    kani::assume(is_cube(s.g(&v)) && s.g(&v) != 0);
    s.cache.top_level = s.min_level(&[f.borrowed()]);
    let want = restrict_spec(s.g(&f), s.g(&v));
    let r = B::restrict_edge(&s, &f, &v);
    post(&s, &r, want);
    covers(&s, &r);
}

macro_rules! step_quant {
    ($name:ident, $f:ident, $q:expr) => {
        #[kani::proof]
        #[kani::unwind(6)]
        fn $name() {
            let mut s = setup(RANK_QUANT);
            let f = sym::any_edge(&s, s.init);
            let v = sym::any_edge(&s, s.init);
            kani::assume(is_pos_cube(s.g(&v)) && s.g(&v) != 0);
            s.cache.top_level = s.min_level(&[f.borrowed()]);
            let want = quant_spec($q, s.g(&f), s.g(&v));
            let r = B::$f(&s, &f, &v);
            post(&s, &r, want);
            covers(&s, &r);
        }
    };
}
step_quant!(step_forall, forall_edge, BDDOp::Forall);
step_quant!(step_exists, exists_edge, BDDOp::Exists);
step_quant!(step_unique, unique_edge, BDDOp::Unique);

macro_rules! step_apply_quant {
    ($name:ident, $f:ident, $q:expr, $bop:expr, $op:expr) => {
        #[kani::proof]
        #[kani::unwind(6)]
        fn $name() {
            let mut s = setup_n(RANK_APPLY_QUANT, 4);
            let f = sym::any_edge(&s, s.init);
            let g = sym::any_edge(&s, s.init);
            let v = sym::any_edge(&s, s.init);
            kani::assume(is_pos_cube(s.g(&v)) && s.g(&v) != 0);
            s.cache.top_level = s.min_level(&[f.borrowed(), g.borrowed()]);
            let want = quant_spec($q, bin_spec($op, s.g(&f), s.g(&g)), s.g(&v));
            let r = B::$f(&s, $bop, &f, &g, &v);
            post(&s, &r, want);
            covers(&s, &r);
        }
    };
}
// (no `paste` crate offline: spell the 24 harnesses out)
step_apply_quant!(step_apply_forall_and, apply_forall_edge, BDDOp::Forall, BooleanOperator::And, BDDOp::And);
step_apply_quant!(step_apply_forall_or, apply_forall_edge, BDDOp::Forall, BooleanOperator::Or, BDDOp::Or);
step_apply_quant!(step_apply_forall_nand, apply_forall_edge, BDDOp::Forall, BooleanOperator::Nand, BDDOp::Nand);
step_apply_quant!(step_apply_forall_nor, apply_forall_edge, BDDOp::Forall, BooleanOperator::Nor, BDDOp::Nor);
step_apply_quant!(step_apply_forall_xor, apply_forall_edge, BDDOp::Forall, BooleanOperator::Xor, BDDOp::Xor);
step_apply_quant!(step_apply_forall_equiv, apply_forall_edge, BDDOp::Forall, BooleanOperator::Equiv, BDDOp::Equiv);
step_apply_quant!(step_apply_forall_imp, apply_forall_edge, BDDOp::Forall, BooleanOperator::Imp, BDDOp::Imp);
step_apply_quant!(step_apply_forall_imp_strict, apply_forall_edge, BDDOp::Forall, BooleanOperator::ImpStrict, BDDOp::ImpStrict);
step_apply_quant!(step_apply_exists_and, apply_exists_edge, BDDOp::Exists, BooleanOperator::And, BDDOp::And);
step_apply_quant!(step_apply_exists_or, apply_exists_edge, BDDOp::Exists, BooleanOperator::Or, BDDOp::Or);
step_apply_quant!(step_apply_exists_nand, apply_exists_edge, BDDOp::Exists, BooleanOperator::Nand, BDDOp::Nand);
step_apply_quant!(step_apply_exists_nor, apply_exists_edge, BDDOp::Exists, BooleanOperator::Nor, BDDOp::Nor);
step_apply_quant!(step_apply_exists_xor, apply_exists_edge, BDDOp::Exists, BooleanOperator::Xor, BDDOp::Xor);
step_apply_quant!(step_apply_exists_equiv, apply_exists_edge, BDDOp::Exists, BooleanOperator::Equiv, BDDOp::Equiv);
step_apply_quant!(step_apply_exists_imp, apply_exists_edge, BDDOp::Exists, BooleanOperator::Imp, BDDOp::Imp);
step_apply_quant!(step_apply_exists_imp_strict, apply_exists_edge, BDDOp::Exists, BooleanOperator::ImpStrict, BDDOp::ImpStrict);
step_apply_quant!(step_apply_unique_and, apply_unique_edge, BDDOp::Unique, BooleanOperator::And, BDDOp::And);
step_apply_quant!(step_apply_unique_or, apply_unique_edge, BDDOp::Unique, BooleanOperator::Or, BDDOp::Or);
step_apply_quant!(step_apply_unique_nand, apply_unique_edge, BDDOp::Unique, BooleanOperator::Nand, BDDOp::Nand);
step_apply_quant!(step_apply_unique_nor, apply_unique_edge, BDDOp::Unique, BooleanOperator::Nor, BDDOp::Nor);
step_apply_quant!(step_apply_unique_xor, apply_unique_edge, BDDOp::Unique, BooleanOperator::Xor, BDDOp::Xor);
step_apply_quant!(step_apply_unique_equiv, apply_unique_edge, BDDOp::Unique, BooleanOperator::Equiv, BDDOp::Equiv);
step_apply_quant!(step_apply_unique_imp, apply_unique_edge, BDDOp::Unique, BooleanOperator::Imp, BDDOp::Imp);
step_apply_quant!(step_apply_unique_imp_strict, apply_unique_edge, BDDOp::Unique, BooleanOperator::ImpStrict, BDDOp::ImpStrict);

// ---------------------------------------------------------------- C01(a): canonicity lemma
/// For every well-formed diagram: distinct nodes denote distinct, non-constant
/// functions; hence two edges are equal iff they denote the same function.
#[kani::proof]
#[kani::unwind(3)]
fn lemma_canonical() {
    let init: usize = kani::any();
    kani::assume(init <= INIT);
    let m = sym::any_manager_opt(init, INIT, N, KCache::miss(), KExtra::none(), sym::id_order(), false);
    assert!(m.ghost_distinct(init), "C01: reduced + ordered + unique implies distinct nodes denote distinct non-constant functions");
    let e1 = sym::any_edge(&m, init);
    let e2 = sym::any_edge(&m, init);
    assert!((m.g(&e1) == m.g(&e2)) == (e1 == e2), "C01: handles compare equal iff they denote the same function");
    assert!((e1 == e2) == (e1.cmp(&e2) == std::cmp::Ordering::Equal), "C01: edge ordering is consistent with equality");
    kani::cover!(init == INIT && e1 != e2, "full diagram, distinct edges");
}
