//! Kani harnesses: real `oxidd-rules-bdd::simple` algorithms over the stub `KManager`.
#![allow(unused, clippy::all)]

pub mod kind {
    use super::*;
    use oxidd_rules_bdd::simple::{BDDOp, BDDRules, BDDTerminal};

    pub const ARITY: usize = 2;
    pub const NTERM: usize = 2;
    #[cfg(not(feature = "l4"))]
    pub const N: usize = 6;
    #[cfg(feature = "l4")]
    pub const N: usize = 8;
    #[cfg(not(feature = "l4"))]
    pub const L: usize = 3;
    #[cfg(feature = "l4")]
    pub const L: usize = 4;
    pub const K_TAGS: bool = false;

    pub type KTag = ();
    pub type KTerminal = BDDTerminal;
    pub type KTermRef<'a> = BDDTerminal;
    pub type KRules = BDDRules;
    pub type KOp = BDDOp;

    /// ghost semantics: truth table, bit `a` = value under the assignment whose
    /// bit `l` is the value of the variable at level `l`
    #[cfg(not(feature = "l4"))]
    pub type G = u8;
    #[cfg(feature = "l4")]
    pub type G = u16;
    #[cfg(not(feature = "l4"))]
    pub const MASK: [G; L] = [0xAA, 0xCC, 0xF0];
    #[cfg(feature = "l4")]
    pub const MASK: [G; L] = [0xAAAA, 0xCCCC, 0xF0F0, 0xFF00];

    /// ghost state for substitution: replacement truth table per level and the id it belongs to
    pub struct KExtra {
        pub subst_len: usize,
        pub subst_g: [G; L],
        pub subst_id: u32,
    }
    impl KExtra {
        pub fn none() -> Self {
            KExtra { subst_len: 0, subst_g: [0; L], subst_id: 0 }
        }
    }

    #[inline(always)]
    pub fn k_collect(mut it: impl Iterator<Item = KEdge>) -> [KEdge; ARITY] {
        let a = it.next().unwrap_or(KEdge(0));
        let b = it.next().unwrap_or(KEdge(0));
        [a, b]
    }
    #[inline(always)]
    pub fn k_drop_children(ch: [KEdge; ARITY], f: impl Fn(KEdge)) {
        let [a, b] = ch;
        f(a);
        f(b);
    }
    pub fn k_slots(b: fn() -> std::cell::UnsafeCell<KNode>) -> [std::cell::UnsafeCell<KNode>; N] {
        #[cfg(not(feature = "l4"))]
        return [b(), b(), b(), b(), b(), b()];
        #[cfg(feature = "l4")]
        return [b(), b(), b(), b(), b(), b(), b(), b()];
    }
    #[inline(always)]
    pub fn g_terminal(_m: &KManager, id: u32) -> G {
        if id == 1 { !0 } else { 0 }
    }
    #[inline(always)]
    pub fn g_node(m: &KManager, level: LevelNo, ch: &[KEdge; ARITY]) -> G {
        let k = MASK[level as usize];
        (m.g(&ch[0]) & k) | (m.g(&ch[1]) & !k)
    }
    #[inline(always)]
    pub fn g_tagged(g: G, _t: bool) -> G {
        g
    }
    #[inline(always)]
    pub fn k_terminal_ref<'a>(_m: &'a KManager, id: u32) -> BDDTerminal {
        if id == 1 { BDDTerminal::True } else { BDDTerminal::False }
    }
    #[inline(always)]
    pub fn k_get_terminal(_m: &KManager, t: BDDTerminal) -> AllocResult<u32> {
        Ok(t as u32)
    }
    #[inline(always)]
    pub fn k_terminal_in_use(_m: &KManager, _id: u32) -> bool {
        true
    }
    #[inline(always)]
    pub fn k_canonical_edge(_m: &KManager, _e: &KEdge) -> bool {
        true
    }
    #[inline(always)]
    pub fn k_same_fn(a: G, b: G) -> bool {
        a == b
    }
    #[inline(always)]
    pub fn k_is_terminal_fn(_m: &KManager, g: G) -> bool {
        g == 0 || g == !0
    }
    /// BDD reduction rule: then != else
    #[inline(always)]
    pub fn k_reduced(_m: &KManager, _l: LevelNo, ch: &[KEdge; ARITY]) -> bool {
        ch[0].0 != ch[1].0
    }

    // ---- truth-table helpers
    #[inline(always)]
    pub fn cof1(f: G, l: usize) -> G {
        let h = f & MASK[l];
        h | (h >> (1 << l))
    }
    #[inline(always)]
    pub fn cof0(f: G, l: usize) -> G {
        let h = f & !MASK[l];
        h | (h << (1 << l))
    }
    #[inline(always)]
    pub fn depends(f: G, l: usize) -> bool {
        cof1(f, l) != cof0(f, l)
    }
    /// conjunction of positive literals (possibly empty = true)
    pub fn is_pos_cube(v: G) -> bool {
        let mut c: G = !0;
        macro_rules! lv { ($l:expr) => { if $l < L && depends(v, $l) { c &= MASK[$l]; } } }
        lv!(0); lv!(1); lv!(2); lv!(3);
        v == c
    }
    /// conjunction of literals of either polarity (possibly empty = true)
    pub fn is_cube(v: G) -> bool {
        let mut c: G = !0;
        macro_rules! lv { ($l:expr) => { if $l < L && depends(v, $l) {
            c &= if cof1(v, $l) != 0 { MASK[$l] } else { !MASK[$l] };
        } } }
        lv!(0); lv!(1); lv!(2); lv!(3);
        v == c
    }
    pub fn bin_spec(op: BDDOp, a: G, b: G) -> G {
        match op {
            BDDOp::And => a & b,
            BDDOp::Or => a | b,
            BDDOp::Nand => !(a & b),
            BDDOp::Nor => !(a | b),
            BDDOp::Xor => a ^ b,
            BDDOp::Equiv => !(a ^ b),
            BDDOp::Imp => !a | b,
            BDDOp::ImpStrict => !a & b,
            _ => {
                assert!(false, "HARNESS: not a binary operator");
                0
            }
        }
    }
    /// quantify `f` over the variable set denoted by the positive cube `v`
    pub fn quant_spec(q: BDDOp, mut f: G, v: G) -> G {
        macro_rules! lv { ($l:expr) => { if $l < L && depends(v, $l) {
            let (a, b) = (cof1(f, $l), cof0(f, $l));
            f = match q { BDDOp::Forall => a & b, BDDOp::Exists => a | b, _ => a ^ b };
        } } }
        lv!(0); lv!(1); lv!(2); lv!(3);
        f
    }
    pub fn restrict_spec(mut f: G, v: G) -> G {
        macro_rules! lv { ($l:expr) => { if $l < L && depends(v, $l) {
            f = if cof1(v, $l) != 0 { cof1(f, $l) } else { cof0(f, $l) };
        } } }
        lv!(0); lv!(1); lv!(2); lv!(3);
        f
    }
    /// simultaneous substitution: level `l < len` is replaced by `r[l]`, other levels stay
    pub fn subst_spec(f: G, r: &[G; L], len: usize) -> G {
        let mut out: G = 0;
        macro_rules! asg { ($a:expr) => { if $a < (1usize << L) {
            let mut idx = 0usize;
            macro_rules! lv { ($l:expr) => { if $l < L {
                let bit = if $l < len { (r[$l] >> $a) & 1 } else { (($a >> $l) & 1) as G };
                idx |= (bit as usize) << $l;
            } } }
            lv!(0); lv!(1); lv!(2); lv!(3);
            out |= ((f >> idx) & 1) << $a;
        } } }
        asg!(0); asg!(1); asg!(2); asg!(3); asg!(4); asg!(5); asg!(6); asg!(7);
        asg!(8); asg!(9); asg!(10); asg!(11); asg!(12); asg!(13); asg!(14); asg!(15);
        out
    }

    pub const RANK_NOT: u32 = 0;
    pub const RANK_BIN: u32 = 1;
    pub const RANK_ITE: u32 = 2;
    pub const RANK_RESTRICT: u32 = 3;
    pub const RANK_QUANT: u32 = 4;
    pub const RANK_SUBST: u32 = 5;
    pub const RANK_APPLY_QUANT: u32 = 6;
    pub fn k_rank(op: BDDOp) -> u32 {
        use BDDOp::*;
        match op {
            Not => RANK_NOT,
            And | Or | Nand | Nor | Xor | Equiv | Imp | ImpStrict => RANK_BIN,
            Ite => RANK_ITE,
            Restrict => RANK_RESTRICT,
            Forall | Exists | Unique => RANK_QUANT,
            Substitute => RANK_SUBST,
            _ => RANK_APPLY_QUANT,
        }
    }
    fn split_apply_quant(op: BDDOp) -> (BDDOp, BDDOp) {
        use BDDOp::*;
        match op {
            ForallAnd => (Forall, And), ForallOr => (Forall, Or), ForallNand => (Forall, Nand), ForallNor => (Forall, Nor),
            ForallXor => (Forall, Xor), ForallEquiv => (Forall, Equiv), ForallImp => (Forall, Imp), ForallImpStrict => (Forall, ImpStrict),
            ExistsAnd => (Exists, And), ExistsOr => (Exists, Or), ExistsNand => (Exists, Nand), ExistsNor => (Exists, Nor),
            ExistsXor => (Exists, Xor), ExistsEquiv => (Exists, Equiv), ExistsImp => (Exists, Imp), ExistsImpStrict => (Exists, ImpStrict),
            UniqueAnd => (Unique, And), UniqueOr => (Unique, Or), UniqueNand => (Unique, Nand), UniqueNor => (Unique, Nor),
            UniqueXor => (Unique, Xor), UniqueEquiv => (Unique, Equiv), UniqueImp => (Unique, Imp), _ => (Unique, ImpStrict),
        }
    }
    /// Specification of a cache key: the truth table its value must have
    pub fn k_spec(m: &KManager, op: BDDOp, ops: &[Borrowed<KEdge>], nums: &[u32]) -> G {
        use BDDOp::*;
        let a = m.g(&ops[0]);
        let b = if ops.len() > 1 { m.g(&ops[1]) } else { 0 };
        let c = if ops.len() > 2 { m.g(&ops[2]) } else { 0 };
        match op {
            Not => {
                assert!(ops.len() == 1 && nums.len() == 0, "C06: cache key arity matches the operator");
                !a
            }
            And | Or | Nand | Nor | Xor | Equiv | Imp | ImpStrict => {
                assert!(ops.len() == 2 && nums.len() == 0, "C06: cache key arity matches the operator");
                bin_spec(op, a, b)
            }
            Ite => {
                assert!(ops.len() == 3 && nums.len() == 0, "C06: cache key arity matches the operator");
                (a & b) | (!a & c)
            }
            Restrict => {
                assert!(ops.len() == 2 && nums.len() == 0, "C06: cache key arity matches the operator");
                assert!(is_cube(b), "C04: restrict recursion keeps a cube of literals as second operand");
                restrict_spec(a, b)
            }
            Forall | Exists | Unique => {
                assert!(ops.len() == 2 && nums.len() == 0, "C06: cache key arity matches the operator");
                assert!(is_pos_cube(b), "C04: quantifier recursion keeps a positive cube as variable set");
                quant_spec(op, a, b)
            }
            Substitute => {
                assert!(ops.len() == 1 && nums.len() == 1, "C06: cache key arity matches the operator");
                assert!(nums[0] == m.x.subst_id, "C06,C04: substitution results are keyed by the id of the substitution in use");
                subst_spec(a, &m.x.subst_g, m.x.subst_len)
            }
            _ => {
                assert!(ops.len() == 3 && nums.len() == 0, "C06: cache key arity matches the operator");
                assert!(is_pos_cube(c), "C04: quantifier recursion keeps a positive cube as variable set");
                let (q, o) = split_apply_quant(op);
                quant_spec(q, bin_spec(o, a, b), c)
            }
        }
    }
}
use kind::*;

include!("../../common/kmanager.rs");

#[cfg(kani)]
mod proofs;
