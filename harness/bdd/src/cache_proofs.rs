//! C06 (i, ii): the real direct-mapped apply cache `DMApplyCache` over the stub manager.
//! Arbitrary key universe (2 operators, 1..3 edge operands out of 4 ids, 0..1 numeric
//! operands), arbitrary hash distribution (hasher with a symbolic multiplier, so
//! total collision is included), concrete capacities 1, 2, 4.
use super::*;
use oxidd_cache::direct::DMApplyCache;
use oxidd_core::ManagerEventSubscriber;
use oxidd_rules_bdd::simple::BDDOp;
use std::hash::Hasher;

#[derive(Default)]
pub struct SymH(u64);
static mut MULT: u64 = 1;
static mut ADD: u64 = 0;
impl Hasher for SymH {
    fn finish(&self) -> u64 {
        self.0.wrapping_mul(unsafe { MULT }).wrapping_add(unsafe { ADD })
    }
    fn write(&mut self, b: &[u8]) {
        let mut i = 0;
        while i < b.len() {
            self.0 = self.0.wrapping_mul(31).wrapping_add(b[i] as u64);
            i += 1;
        }
    }
    fn write_u32(&mut self, x: u32) {
        self.0 = self.0.wrapping_mul(31).wrapping_add(x as u64);
    }
    fn write_u8(&mut self, x: u8) {
        self.0 = self.0.wrapping_mul(31).wrapping_add(x as u64);
    }
    fn write_isize(&mut self, x: isize) {
        self.0 = self.0.wrapping_mul(31).wrapping_add(x as u64);
    }
    fn write_usize(&mut self, x: usize) {
        self.0 = self.0.wrapping_mul(31).wrapping_add(x as u64);
    }
}

type Cache = DMApplyCache<KManager<'static>, BDDOp, SymH, 5>;

#[derive(Clone, Copy, PartialEq, Eq)]
struct Key {
    op: bool,
    ne: usize,
    e: [u32; 3],
    nn: usize,
    n: [u32; 1],
}
fn any_key() -> Key {
    let k = Key { op: kani::any(), ne: kani::any(), e: [kani::any(), kani::any(), kani::any()], nn: kani::any(), n: [kani::any()] };
    kani::assume(k.ne >= 1 && k.ne <= 3 && k.nn <= 1);
    kani::assume(k.e[0] < 4 && k.e[1] < 4 && k.e[2] < 4);
    k
}
/// keys are compared on the components that are part of the key (operands beyond the arity are ignored)
fn same_key(a: &Key, b: &Key) -> bool {
    a.op == b.op && a.ne == b.ne && a.nn == b.nn && a.e[0] == b.e[0] && (a.ne < 2 || a.e[1] == b.e[1])
        && (a.ne < 3 || a.e[2] == b.e[2]) && (a.nn < 1 || a.n[0] == b.n[0])
}
fn op_of(k: &Key) -> BDDOp {
    if k.op { BDDOp::And } else { BDDOp::Or }
}
fn add(c: &Cache, m: &KManager<'static>, k: &Key, v: u32) {
    let e = [KEdge(k.e[0]), KEdge(k.e[1]), KEdge(k.e[2])];
    let b = [e[0].borrowed(), e[1].borrowed(), e[2].borrowed()];
    let val = KEdge(v);
    c.add_extended(m, op_of(k), (&b[..k.ne], &k.n[..k.nn]), (&[val.borrowed()], &[]));
}
fn get(c: &Cache, m: &KManager<'static>, k: &Key) -> Option<u32> {
    let e = [KEdge(k.e[0]), KEdge(k.e[1]), KEdge(k.e[2])];
    let b = [e[0].borrowed(), e[1].borrowed(), e[2].borrowed()];
    let r: Option<([KEdge; 1], [u32; 0])> = c.get_extended(m, op_of(k), (&b[..k.ne], &k.n[..k.nn]));
    let out = r.as_ref().map(|(e, _)| e[0].0);
    std::mem::forget(r);
    out
}
fn mk() -> KManager<'static> {
    k_new_manager!(N, KCache::miss(), k_extra_none(), sym::id_order())
}

/// Three arbitrary insertions, then an arbitrary lookup: a hit returns exactly the value of
/// the *last* insertion under exactly that key; keys differing in operator, arity, any
/// operand or any numeric operand never hit.
fn seq3(capacity: usize) {
    unsafe {
        MULT = kani::any();
        ADD = kani::any();
    }
    let m = mk();
    let c: Cache = unsafe { DMApplyCache::with_capacity(capacity) };
    let (k1, k2, k3, q) = (any_key(), any_key(), any_key(), any_key());
    let (v1, v2, v3): (u32, u32, u32) = (kani::any(), kani::any(), kani::any());
    kani::assume(v1 < 4 && v2 < 4 && v3 < 4);
    add(&c, &m, &k1, v1);
    add(&c, &m, &k2, v2);
    add(&c, &m, &k3, v3);
    let r = get(&c, &m, &q);
    if let Some(v) = r {
        let last = if same_key(&q, &k3) { Some(v3) } else if same_key(&q, &k2) { Some(v2) } else if same_key(&q, &k1) { Some(v1) } else { None };
        assert!(last.is_some(), "C06: a memoised result is never served for a different operator / operand tuple / numeric operand / arity");
        assert!(last == Some(v), "C06: a hit returns the value of the last insertion under that key");
    }
    // a lookup with a different value arity never hits an entry stored with one edge value
    {
        let e = [KEdge(q.e[0]), KEdge(q.e[1]), KEdge(q.e[2])];
        let b = [e[0].borrowed(), e[1].borrowed(), e[2].borrowed()];
        let r2: Option<([KEdge; 1], [u32; 1])> = c.get_extended(&m, op_of(&q), (&b[..q.ne], &q.n[..q.nn]));
        assert!(r2.is_none(), "C06: entries are only served for the value arity they were stored with");
        std::mem::forget(r2);
    }
    if capacity > 1 {
        kani::cover!(r.is_some() && same_key(&q, &k1) && !same_key(&q, &k3), "an older entry survives a later insertion");
    }
    kani::cover!(r.is_none() && same_key(&q, &k1), "an entry is evicted by a colliding insertion");
    kani::cover!(r.is_some() && q.ne == 3 && q.nn == 1, "hit with three operands and a numeric operand");
    std::mem::forget(c);
    std::mem::forget(m);
}
#[kani::proof]
#[kani::unwind(6)]
fn cache_seq3_cap1() {
    seq3(1)
}
#[kani::proof]
#[kani::unwind(6)]
fn cache_seq3_cap2() {
    seq3(2)
}
#[kani::proof]
#[kani::unwind(6)]
fn cache_seq3_cap4() {
    seq3(4)
}

/// gc bracket: after pre_gc nothing is served and nothing is stored; after post_gc the cache
/// is empty and usable again.
#[kani::proof]
#[kani::unwind(6)]
fn cache_gc_bracket() {
    unsafe {
        MULT = kani::any();
        ADD = kani::any();
    }
    let m = mk();
    let c: Cache = unsafe { DMApplyCache::with_capacity(2) };
    let (k1, k2, q) = (any_key(), any_key(), any_key());
    let (v1, v2): (u32, u32) = (kani::any(), kani::any());
    kani::assume(v1 < 4 && v2 < 4);
    add(&c, &m, &k1, v1);
    c.pre_gc(&m);
    assert!(get(&c, &m, &q).is_none(), "C06: no memoised result is served while a garbage collection / reordering is in progress");
    add(&c, &m, &k2, v2);
    assert!(get(&c, &m, &k2).is_none(), "C06: nothing is memoised while a garbage collection / reordering is in progress");
    unsafe { c.post_gc(&m) };
    assert!(get(&c, &m, &q).is_none(), "C06: no memoised result outlives a garbage collection / reordering");
    add(&c, &m, &k2, v2);
    assert!(get(&c, &m, &k2) == Some(v2), "C06: the cache is usable again after post_gc");
    // explicit clear
    c.clear(&m);
    assert!(get(&c, &m, &q).is_none(), "C06: clear removes every entry");
    std::mem::forget(c);
    std::mem::forget(m);
}
