//! C08 (order computation): real `sort_order` (incl. the real `MinSegTree`) and `bubble_sort`
//! of oxidd-reorder, reached through the `verif-hooks` feature.
#![allow(unused, clippy::all)]
#[cfg(kani)]
mod proofs;
