use oxidd_reorder::verif_hooks::{bubble_sort, sort_order};
use std::sync::atomic::{AtomicU32, AtomicU64, Ordering::Relaxed};

const N: usize = 4;

fn inversions(p: &[u32; N]) -> u32 {
    let mut c = 0;
    macro_rules! pair { ($i:expr, $j:expr) => { if p[$i] > p[$j] { c += 1; } } }
    pair!(0, 1); pair!(0, 2); pair!(0, 3); pair!(1, 2); pair!(1, 3); pair!(2, 3);
    c
}
fn is_perm(p: &[u32; N]) -> bool {
    let mut seen = 0u32;
    let mut ok = true;
    macro_rules! e { ($i:expr) => { ok = ok && p[$i] < N as u32 && seen & (1 << p[$i].min(31)) == 0; seen |= 1 << p[$i].min(31); } }
    e!(0); e!(1); e!(2); e!(3);
    ok
}
/// `t` places the levels listed in `ord[..k]` in that relative order
fn respects(t: &[u32; N], ord: &[u32; N], k: usize) -> bool {
    let mut ok = true;
    macro_rules! adj { ($i:expr) => { if $i + 1 < k { ok = ok && t[ord[$i] as usize % N] < t[ord[$i + 1] as usize % N]; } } }
    adj!(0); adj!(1); adj!(2);
    ok
}

/// The target order computed for a partial order over 4 levels with `k` named levels:
/// a permutation, respecting the requested relative order, with the minimal number of
/// inversions (= adjacent level swaps) among all such permutations.
fn sort_order_k(k: usize) {
    let ord: [u32; N] = [kani::any(), kani::any(), kani::any(), kani::any()];
    // the first k entries name distinct levels
    macro_rules! rng { ($i:expr) => { if $i < k { kani::assume(ord[$i] < N as u32); } } }
    rng!(0); rng!(1); rng!(2); rng!(3);
    macro_rules! ne { ($i:expr, $j:expr) => { if $j < k { kani::assume(ord[$i] != ord[$j]); } } }
    ne!(0, 1); ne!(0, 2); ne!(0, 3); ne!(1, 2); ne!(1, 3); ne!(2, 3);
    let r = sort_order(N as u32, ord[..k].iter().copied());
    assert!(r.len() == N, "C08: the target order covers every level");
    let t = [r[0], r[1], r[2], r[3]];
    assert!(is_perm(&t), "C08: the target order is a permutation of the levels");
    assert!(respects(&t, &ord, k), "C08: every pair of named variables appears in the requested relative order");
    // minimality among all completions: an arbitrary competitor cannot have fewer inversions
    let c: [u32; N] = [kani::any(), kani::any(), kani::any(), kani::any()];
    kani::assume(is_perm(&c) && respects(&c, &ord, k));
    assert!(inversions(&t) <= inversions(&c), "C08: unnamed variables are placed so that the number of adjacent level swaps is minimal");
    kani::cover!(k < 2 || inversions(&t) >= 2, "non-trivial reordering (needs at least two named levels)");
    std::mem::forget(r);
}
#[kani::proof]
#[kani::unwind(10)]
fn sort_order_k0() { sort_order_k(0) }
#[kani::proof]
#[kani::unwind(10)]
fn sort_order_k1() { sort_order_k(1) }
#[kani::proof]
#[kani::unwind(10)]
fn sort_order_k2() { sort_order_k(2) }
#[kani::proof]
#[kani::unwind(10)]
fn sort_order_k3() { sort_order_k(3) }
#[kani::proof]
#[kani::unwind(10)]
fn sort_order_k4() { sort_order_k(4) }

/// bubble_sort: only adjacent positions are swapped, the callback sees exactly the swaps
/// applied to the sequence, and the sequence ends sorted (4 elements, any permutation)
#[kani::proof]
#[kani::unwind(8)]
fn bubble_sort_4() {
    static LOG: AtomicU64 = AtomicU64::new(0);
    static CNT: AtomicU32 = AtomicU32::new(0);
    let mut seq: [u32; N] = [kani::any(), kani::any(), kani::any(), kani::any()];
    kani::assume(is_perm(&seq));
    let orig = seq;
    bubble_sort(&mut seq, &|i| {
        let n = CNT.fetch_add(1, Relaxed);
        if n < 16 {
            LOG.fetch_or(((i as u64) & 3) << (2 * n), Relaxed);
        }
        assert!(i + 1 < N as u32, "C08: only adjacent levels inside the range are swapped");
    });
    assert!(seq[0] < seq[1] && seq[1] < seq[2] && seq[2] < seq[3], "C08: the level sequence ends in the target order");
    // replay the logged swaps on the original sequence
    let n = CNT.load(Relaxed);
    assert!(n == inversions(&orig), "C08: the number of level swaps equals the number of inversions (minimal)");
    let mut rep = orig;
    let log = LOG.load(Relaxed);
    macro_rules! st { ($k:expr) => { if $k < n { let i = ((log >> (2 * $k)) & 3) as usize; rep.swap(i, (i + 1).min(N - 1)); } } }
    st!(0); st!(1); st!(2); st!(3); st!(4); st!(5);
    assert!(rep[0] == seq[0] && rep[1] == seq[1] && rep[2] == seq[2] && rep[3] == seq[3], "C08: the swap callback is invoked for exactly the swaps applied");
    kani::cover!(n == 6, "reversal needs six swaps");
}
