//! Kani harnesses: real `oxidd-rules-tdd` algorithms over the stub `KManager`.
#![allow(unused, clippy::all)]

pub mod kind {
    use super::*;
    use oxidd_rules_tdd::{TDDOp, TDDRules, TDDTerminal};

    pub const ARITY: usize = 3;
    pub const NTERM: usize = 3;
    pub const N: usize = 6;
    pub const L: usize = 2;
    pub const K_TAGS: bool = false;

    pub type KTag = ();
    pub type KTerminal = TDDTerminal;
    pub type KTermRef<'a> = TDDTerminal;
    pub type KRules = TDDRules;
    pub type KOp = TDDOp;

    /// ghost semantics: value table over the 9 three-valued assignments of 2 variables,
    /// 2 bits per entry (0 = false, 1 = unknown, 2 = true = terminal id); entry index
    /// a = d0 + 3*d1 where d_l is the child chosen at level l (0: variable true,
    /// 1: unknown, 2: false)
    pub type G = u32;
    const fn sel(l: usize, k: usize) -> G {
        let mut m = 0;
        let mut a = 0;
        while a < 9 {
            let d = if l == 0 { a % 3 } else { a / 3 };
            if d == k {
                m |= 0b11 << (2 * a);
            }
            a += 1;
        }
        m
    }
    pub const SEL: [[G; 3]; L] = [[sel(0, 0), sel(0, 1), sel(0, 2)], [sel(1, 0), sel(1, 1), sel(1, 2)]];
    pub const REP: G = 0x15555;

    pub struct KExtra;
    pub fn k_extra_none() -> KExtra {
        KExtra
    }
    #[inline(always)]
    pub fn k_extra_wf(_m: &KManager) -> bool {
        true
    }
    #[inline(always)]
    pub fn k_collect(mut it: impl Iterator<Item = KEdge>) -> [KEdge; ARITY] {
        let a = it.next().unwrap_or(KEdge(0));
        let b = it.next().unwrap_or(KEdge(0));
        let c = it.next().unwrap_or(KEdge(0));
        [a, b, c]
    }
    #[inline(always)]
    pub fn k_drop_children(ch: [KEdge; ARITY], f: impl Fn(KEdge)) {
        let [a, b, c] = ch;
        f(a);
        f(b);
        f(c);
    }
    pub fn k_slots(b: fn() -> std::cell::UnsafeCell<KNode>) -> [std::cell::UnsafeCell<KNode>; N] {
        [b(), b(), b(), b(), b(), b()]
    }
    #[inline(always)]
    pub fn g_terminal(_m: &KManager, id: u32) -> G {
        id * REP
    }
    #[inline(always)]
    pub fn g_node(m: &KManager, level: LevelNo, ch: &[KEdge; ARITY]) -> G {
        let s = &SEL[level as usize];
        (m.g(&ch[0]) & s[0]) | (m.g(&ch[1]) & s[1]) | (m.g(&ch[2]) & s[2])
    }
    #[inline(always)]
    pub fn g_tagged(g: G, _t: bool) -> G {
        g
    }
    #[inline(always)]
    pub fn k_terminal_ref<'a>(_m: &'a KManager, id: u32) -> TDDTerminal {
        match id { 0 => TDDTerminal::False, 1 => TDDTerminal::Unknown, _ => TDDTerminal::True }
    }
    #[inline(always)]
    pub fn k_get_terminal(_m: &KManager, t: TDDTerminal) -> AllocResult<u32> {
        Ok(t as u32)
    }
    #[inline(always)]
    pub fn k_terminal_in_use(_m: &KManager, _id: u32) -> bool {
        true
    }
    #[inline(always)]
    pub fn k_canonical_edge(_m: &KManager, _e: &KEdge) -> bool {
        true
    }
    #[inline(always)]
    pub fn k_same_fn(a: G, b: G) -> bool {
        a == b
    }
    #[inline(always)]
    pub fn k_is_terminal_fn(_m: &KManager, g: G) -> bool {
        g == 0 || g == REP || g == 2 * REP
    }
    /// TDD reduction rule: not all three children equal
    #[inline(always)]
    pub fn k_reduced(_m: &KManager, _l: LevelNo, ch: &[KEdge; ARITY]) -> bool {
        !(ch[0].0 == ch[1].0 && ch[1].0 == ch[2].0)
    }

    // ---- the fixed three-valued logic of the property statement, on codes 0 = F, 1 = U, 2 = T
    #[inline(always)]
    pub fn tv_bin(op: TDDOp, a: u32, b: u32) -> u32 {
        use TDDOp::*;
        match op {
            And => a.min(b),                                  // Kleene
            Or => a.max(b),                                   // Kleene
            Nand => 2 - a.min(b),
            Nor => 2 - a.max(b),
            Imp => (2 + b - a).min(2),                        // Lukasiewicz
            Equiv => 2 - a.abs_diff(b),                       // Lukasiewicz
            Xor => a.abs_diff(b),                             // not equiv
            _ => if b > a { b - a } else { 0 },               // imp_strict(a, b) = not imp(b, a)
        }
    }
    #[inline(always)]
    pub fn tv_ite(a: u32, b: u32, c: u32) -> u32 {
        if b == c || a == 2 { b } else if a == 0 { c } else if a == b { a.max(c) } else if a == c { a.min(b) } else { 1 }
    }
    #[inline(always)]
    pub fn at(g: G, a: usize) -> u32 {
        (g >> (2 * a)) & 3
    }
    pub fn lift1(f: fn(u32) -> u32, x: G) -> G {
        let mut r = 0;
        macro_rules! e { ($a:expr) => { r |= f(at(x, $a)) << (2 * $a); } }
        e!(0); e!(1); e!(2); e!(3); e!(4); e!(5); e!(6); e!(7); e!(8);
        r
    }
    pub fn lift2(op: TDDOp, x: G, y: G) -> G {
        let mut r = 0;
        macro_rules! e { ($a:expr) => { r |= tv_bin(op, at(x, $a), at(y, $a)) << (2 * $a); } }
        e!(0); e!(1); e!(2); e!(3); e!(4); e!(5); e!(6); e!(7); e!(8);
        r
    }
    pub fn lift3(x: G, y: G, z: G) -> G {
        let mut r = 0;
        macro_rules! e { ($a:expr) => { r |= tv_ite(at(x, $a), at(y, $a), at(z, $a)) << (2 * $a); } }
        e!(0); e!(1); e!(2); e!(3); e!(4); e!(5); e!(6); e!(7); e!(8);
        r
    }
    pub fn tv_not(a: u32) -> u32 {
        2 - a
    }

    pub const RANK_NOT: u32 = 0;
    pub const RANK_BIN: u32 = 1;
    pub const RANK_ITE: u32 = 2;
    pub fn k_rank(op: TDDOp) -> u32 {
        match op { TDDOp::Not => RANK_NOT, TDDOp::Ite => RANK_ITE, _ => RANK_BIN }
    }
    pub fn k_spec(m: &KManager, op: TDDOp, ops: &[Borrowed<KEdge>], nums: &[u32]) -> G {
        let a = m.g(&ops[0]);
        let b = if ops.len() > 1 { m.g(&ops[1]) } else { 0 };
        let c = if ops.len() > 2 { m.g(&ops[2]) } else { 0 };
        match op {
            TDDOp::Not => {
                assert!(ops.len() == 1 && nums.len() == 0, "C06: cache key arity matches the operator");
                lift1(tv_not, a)
            }
            TDDOp::Ite => {
                assert!(ops.len() == 3 && nums.len() == 0, "C06: cache key arity matches the operator");
                lift3(a, b, c)
            }
            _ => {
                assert!(ops.len() == 2 && nums.len() == 0, "C06: cache key arity matches the operator");
                lift2(op, a, b)
            }
        }
    }
    #[inline(always)]
    pub fn k_sem_ok(m: &KManager, op: KOp, ops: &[Borrowed<KEdge>], nums: &[u32], r: &KEdge) -> bool {
        m.g(r) == k_spec(m, op, ops, nums)
    }
}
use kind::*;

include!("../../common/kmanager.rs");

#[cfg(kani)]
mod proofs;
