//! Step harnesses for the TDD rules (C11).
use super::*;
use oxidd_core::function::TVLFunction;
use oxidd_rules_tdd::{TDDFunction, TDDOp, TDDTerminal};

pub type B = TDDFunction<KFunc>;
pub type Setup = KManager<'static>;

pub fn setup_t(top_rank: u32, max_init: usize, allowed: &'static [KOp]) -> Setup {
    let init: usize = kani::any();
    kani::assume(init <= max_init);
    let cap: usize = kani::any();
    kani::assume(cap >= init && cap <= N);
    let mut cache = KCache::step(top_rank, 0);
    cache.set_allowed(allowed);
    sym::any_manager(init, max_init, cap, cache, k_extra_none(), sym::id_order())
}
pub fn post(s: &Setup, r: &AllocResult<KEdge>, want: G) {
    let m = s;
    assert!(m.wf(), "C01,C03: diagram stays ordered, reduced and duplicate-free");
    assert!(m.ghost_ok(), "C03: pre-existing nodes are unchanged");
    match r {
        Ok(e) => {
            assert!((e.id() as usize) < NTERM + m.len.get(), "C01: result is a valid edge");
            assert!(m.g(e) == want, "C11: result is the pointwise lifting of the fixed three-valued truth table");
            let exp = if e.id() == m.watch { 1 } else { 0 } + m.new_parent_refs();
            assert!(m.wrc.get() == exp, "C05: net reference change = +1 for the returned handle + edges stored in newly created nodes, 0 on every other node");
        }
        Err(_) => {
            assert!(m.oom.get(), "C14: out-of-memory is only reported when an allocation actually failed");
            assert!(m.wrc.get() == m.new_parent_refs(), "C14,C05: a failed operation releases every reference it acquired");
        }
    }
}
pub fn covers(s: &Setup, r: &AllocResult<KEdge>) {
    kani::cover!(s.cache.adds.get() > 0 && r.is_ok(), "non-terminal path with cache insertion");
    kani::cover!(s.cache.hits.get() >= 2, "oracle consulted for at least two cofactors");
    kani::cover!(s.created.get() > 0, "node created");
    kani::cover!(r.is_err(), "out-of-memory path");
}
macro_rules! tstep_bin {
    ($name:ident, $f:ident, $op:expr, $mi:expr) => {
        #[kani::proof]
        #[kani::unwind(4)]
        fn $name() {
            let mut s = setup_t(RANK_BIN, $mi, &[$op, TDDOp::Not]);
            let f = sym::any_edge(&s, s.init_c.get());
            let g = sym::any_edge(&s, s.init_c.get());
            s.cache.top_level = s.min_level(&[f.borrowed(), g.borrowed()]);
            let want = lift2($op, s.g(&f), s.g(&g));
            let r = B::$f(&s, &f, &g);
            post(&s, &r, want);
            covers(&s, &r);
        }
    };
}
tstep_bin!(step_and, and_edge, TDDOp::And, 2);
tstep_bin!(step_or, or_edge, TDDOp::Or, 2);
tstep_bin!(step_nand, nand_edge, TDDOp::Nand, 2);
tstep_bin!(step_nor, nor_edge, TDDOp::Nor, 2);
tstep_bin!(step_xor, xor_edge, TDDOp::Xor, 2);
tstep_bin!(step_equiv, equiv_edge, TDDOp::Equiv, 2);
tstep_bin!(step_imp, imp_edge, TDDOp::Imp, 2);
tstep_bin!(step_imp_strict, imp_strict_edge, TDDOp::ImpStrict, 2);
tstep_bin!(step_and_n3, and_edge, TDDOp::And, 3);
tstep_bin!(step_or_n3, or_edge, TDDOp::Or, 3);
tstep_bin!(step_nand_n3, nand_edge, TDDOp::Nand, 3);
tstep_bin!(step_nor_n3, nor_edge, TDDOp::Nor, 3);
tstep_bin!(step_xor_n3, xor_edge, TDDOp::Xor, 3);
tstep_bin!(step_equiv_n3, equiv_edge, TDDOp::Equiv, 3);
tstep_bin!(step_imp_n3, imp_edge, TDDOp::Imp, 3);
tstep_bin!(step_imp_strict_n3, imp_strict_edge, TDDOp::ImpStrict, 3);

#[kani::proof]
#[kani::unwind(4)]
fn step_not() {
    let mut s = setup_t(RANK_NOT, 3, &[TDDOp::Not]);
    let f = sym::any_edge(&s, s.init_c.get());
    s.cache.top_level = s.min_level(&[f.borrowed()]);
    let want = lift1(tv_not, s.g(&f));
    let r = B::not_edge(&s, &f);
    post(&s, &r, want);
    covers(&s, &r);
}
#[kani::proof]
#[kani::unwind(4)]
fn step_ite() {
    let mut s = setup_t(RANK_ITE, 2, &[TDDOp::Ite, TDDOp::And, TDDOp::Or, TDDOp::Imp, TDDOp::ImpStrict, TDDOp::Not]);
    let f = sym::any_edge(&s, s.init_c.get());
    let g = sym::any_edge(&s, s.init_c.get());
    let h = sym::any_edge(&s, s.init_c.get());
    s.cache.miss_arity = 3;
    s.cache.top_level = s.min_level(&[f.borrowed(), g.borrowed(), h.borrowed()]);
    let want = lift3(s.g(&f), s.g(&g), s.g(&h));
    let r = B::ite_edge(&s, &f, &g, &h);
    post(&s, &r, want);
    covers(&s, &r);
}

/// constants, var, cofactors, eval
#[kani::proof]
#[kani::unwind(4)]
fn base_constants_var_eval() {
    let s = setup_t(RANK_BIN, 3, &[]);
    assert!(s.g(&B::f_edge(&s)) == 0, "C11: f evaluates to false under every assignment");
    assert!(s.g(&B::u_edge(&s)) == REP, "C11: u evaluates to unknown under every assignment");
    assert!(s.g(&B::t_edge(&s)) == 2 * REP, "C11: t evaluates to true under every assignment");
    // the handle-level constructors (default methods of the trait)
    {
        use oxidd_core::function::Function;
        let e = B::f(&s).into_edge(&s);
        assert!(s.g(&e) == 0, "C11: constant f evaluates to false under every assignment");
        let e = B::t(&s).into_edge(&s);
        assert!(s.g(&e) == 2 * REP, "C11: constant t evaluates to true under every assignment");
        let e = B::u(&s).into_edge(&s);
        assert!(s.g(&e) == REP, "C11: constant u evaluates to unknown under every assignment");
    }
    if kani::any() {
        let var: VarNo = kani::any();
        kani::assume((var as usize) < L);
        let r = B::var_edge(&s, var);
        if let Ok(e) = &r {
            let l = s.var2level[var as usize] as usize;
            // value of var under assignment a = value given to the variable: digit 0 -> true, 1 -> unknown, 2 -> false
            let want: G = SEL[l][0] & (2 * REP) | SEL[l][1] & REP;
            assert!(s.g(e) == want, "C11: var evaluates to its argument's value");
        }
        assert!(s.wf(), "C03: diagram well-formed after var");
    } else {
        let f = sym::any_edge(&s, s.init_c.get());
        if let Some((t, u, e)) = B::cofactors_edge(&s, &f) {
            let n = s.node(f.slot());
            assert!(*t == n.ch()[0] && *u == n.ch()[1] && *e == n.ch()[2], "C11: the three cofactors are the true/unknown/false children in that order");
        } else {
            assert!(f.is_terminal(), "C11: only terminals have no cofactors");
        }
    }
}

/// CBMC pitfall regression probe (see common/kmanager.rs): a node's first child read through
/// a reference with a symbolic node index must agree with the assumed well-formedness
#[kani::proof]
#[kani::unwind(5)]
fn probe_child0_by_ref() {
    let s = setup_t(RANK_BIN, 3, &[]);
    let i: usize = kani::any();
    kani::assume(i < s.init_c.get());
    let n = s.node(i);
    use oxidd_core::InnerNode;
    let c = n.child(0);
    assert!(((c.0 & !TAG_BIT) as usize) < NTERM + s.init_c.get(), "HARNESS: first child read through a reference agrees with the assumed well-formedness");
    assert!(s.wf_node(i), "HARNESS: well-formedness of a symbolically indexed node follows from the assumption");
    kani::cover!(s.init_c.get() >= 2 && i == 1, "second node");
}
