//! Kani harnesses: real `oxidd-rules-mtbdd` algorithms over the stub `KManager`.
#![allow(unused, clippy::all)]

pub mod num {
    //! Terminal type of the lifting harnesses: by default an 8-bit instance of the
    //! same extended-integer algebra as `I64` (exact result, else the infinity of
    //! its sign, NaN for undefined forms), so that the MTBDD *lifting* is decided
    //! independently of the 64-bit arithmetic circuits (those are verified at full
    //! width in the `kernels` crate). Feature `real-i64` plugs in the real `I64`.
    use oxidd_core::function::NumberBase;
    use std::cmp::Ordering;

    #[derive(Clone, Copy, PartialEq, Eq, Hash, Debug)]
    pub enum K8 {
        NaN,
        NInf,
        Num(i8),
        PInf,
    }
    use K8::*;
    fn repr(x: i16) -> K8 {
        if x > i8::MAX as i16 { PInf } else if x < i8::MIN as i16 { NInf } else { Num(x as i8) }
    }
    fn sgn(x: K8) -> i32 {
        match x { NaN => 0, NInf => -1, PInf => 1, Num(n) => (n as i32).signum() }
    }
    fn inf_of(s: i32) -> K8 {
        if s > 0 { PInf } else if s < 0 { NInf } else { NaN }
    }
    impl PartialOrd for K8 {
        fn partial_cmp(&self, o: &Self) -> Option<Ordering> {
            match (*self, *o) {
                (NaN, NaN) => Some(Ordering::Equal),
                (NaN, _) | (_, NaN) => None,
                (a, b) => {
                    let k = |x: K8| match x { NInf => -1000, PInf => 1000, Num(n) => n as i32, NaN => 0 };
                    Some(k(a).cmp(&k(b)))
                }
            }
        }
    }
    impl NumberBase for K8 {
        fn zero() -> Self { Num(0) }
        fn one() -> Self { Num(1) }
        fn nan() -> Self { NaN }
        fn add(&self, r: &Self) -> Self {
            match (*self, *r) {
                (NaN, _) | (_, NaN) | (PInf, NInf) | (NInf, PInf) => NaN,
                (Num(a), Num(b)) => repr(a as i16 + b as i16),
                (PInf, _) | (_, PInf) => PInf,
                (NInf, _) | (_, NInf) => NInf,
            }
        }
        fn sub(&self, r: &Self) -> Self {
            let neg = match *r { NaN => NaN, NInf => PInf, PInf => NInf, Num(b) => return match *self {
                Num(a) => repr(a as i16 - b as i16), x => x } };
            self.add(&neg)
        }
        fn mul(&self, r: &Self) -> Self {
            match (*self, *r) {
                (NaN, _) | (_, NaN) => NaN,
                (Num(a), Num(b)) => repr(a as i16 * b as i16),
                (a, b) => inf_of(sgn(a) * sgn(b)),
            }
        }
        fn div(&self, r: &Self) -> Self {
            match (*self, *r) {
                (NaN, _) | (_, NaN) => NaN,
                (Num(a), Num(0)) => inf_of((a as i32).signum()),
                (Num(a), Num(b)) => repr(a as i16 / b as i16),
                (Num(_), _) => Num(0),
                (a, Num(b)) => inf_of(sgn(a) * if b < 0 { -1 } else { 1 }),
                _ => NaN,
            }
        }
    }
    #[cfg(kani)]
    pub fn any_k8() -> K8 {
        match kani::any::<u8>() & 3 { 0 => NaN, 1 => NInf, 2 => PInf, _ => Num(kani::any()) }
    }
}

pub mod kind {
    use super::*;
    use oxidd_core::function::NumberBase;
    use oxidd_rules_mtbdd::{MTBDDOp, MTBDDRules};

    #[cfg(not(feature = "real-i64"))]
    pub type Num = super::num::K8;
    #[cfg(feature = "real-i64")]
    pub type Num = oxidd_rules_mtbdd::terminal::I64;

    pub const ARITY: usize = 2;
    /// terminal id space = capacity of the terminal table
    pub const NTERM: usize = 4;
    pub const N: usize = 6;
    pub const L: usize = 2;
    pub const K_TAGS: bool = false;

    pub type KTag = ();
    pub type KTerminal = Num;
    pub type KTermRef<'a> = &'a Num;
    pub type KRules = MTBDDRules;
    pub type KOp = MTBDDOp;

    /// ghost semantics: value table, 4 assignments x 4 bit terminal id
    pub type G = u16;
    /// nibbles of the assignments in which the level-l variable is 1
    pub const MASK: [G; L] = [0xF0F0, 0xFF00];

    /// hash-consed terminal table with its own (symbolic) capacity
    pub struct KExtra {
        pub tvals: std::cell::UnsafeCell<[Num; NTERM]>,
        pub tlen: std::cell::Cell<usize>,
        pub tinit: usize,
        pub tcap: usize,
    }
    pub fn k_extra_wf(m: &KManager) -> bool {
        let x = &m.x;
        let n = x.tlen.get();
        let mut ok = n <= NTERM && x.tcap <= NTERM;
        macro_rules! pair { ($i:expr, $j:expr) => { if $j < n { ok = ok && tval(m, $i) != tval(m, $j); } } }
        pair!(0, 1); pair!(0, 2); pair!(0, 3); pair!(1, 2); pair!(1, 3); pair!(2, 3);
        ok
    }
    #[inline(always)]
    pub fn tval(m: &KManager, id: usize) -> Num {
        unsafe { (&*m.x.tvals.get())[id] }
    }

    #[inline(always)]
    pub fn k_collect(mut it: impl Iterator<Item = KEdge>) -> [KEdge; ARITY] {
        let a = it.next().unwrap_or(KEdge(0));
        let b = it.next().unwrap_or(KEdge(0));
        [a, b]
    }
    #[inline(always)]
    pub fn k_drop_children(ch: [KEdge; ARITY], f: impl Fn(KEdge)) {
        let [a, b] = ch;
        f(a);
        f(b);
    }
    pub fn k_slots(b: fn() -> std::cell::UnsafeCell<KNode>) -> [std::cell::UnsafeCell<KNode>; N] {
        [b(), b(), b(), b(), b(), b()]
    }
    #[inline(always)]
    pub fn g_terminal(_m: &KManager, id: u32) -> G {
        (id as G) * 0x1111
    }
    #[inline(always)]
    pub fn g_node(m: &KManager, level: LevelNo, ch: &[KEdge; ARITY]) -> G {
        let k = MASK[level as usize];
        (m.g(&ch[0]) & k) | (m.g(&ch[1]) & !k)
    }
    #[inline(always)]
    pub fn g_tagged(g: G, _t: bool) -> G {
        g
    }
    #[inline(always)]
    pub fn k_terminal_ref<'a>(m: &'a KManager, id: u32) -> &'a Num {
        // concrete-index selection (no pointer with a symbolic offset, see KManager::node)
        let t = unsafe { &*m.x.tvals.get() };
        match id {
            0 => &t[0],
            1 => &t[1],
            2 => &t[2],
            _ => &t[3],
        }
    }
    /// hash-consing lookup, else append, else out of memory
    pub fn k_get_terminal(m: &KManager, t: Num) -> AllocResult<u32> {
        let n = m.x.tlen.get();
        let mut found = NTERM;
        macro_rules! probe { ($i:expr) => { if $i < n && tval(m, $i) == t { found = $i; } } }
        probe!(0); probe!(1); probe!(2); probe!(3);
        if found < NTERM {
            return Ok(found as u32);
        }
        if n >= m.x.tcap {
            m.oom.set(true);
            return Err(OutOfMemory);
        }
        unsafe { (&mut *m.x.tvals.get())[n] = t };
        m.x.tlen.set(n + 1);
        Ok(n as u32)
    }
    #[inline(always)]
    pub fn k_terminal_in_use(m: &KManager, id: u32) -> bool {
        (id as usize) < m.x.tlen.get()
    }
    #[inline(always)]
    pub fn k_canonical_edge(m: &KManager, e: &KEdge) -> bool {
        !e.is_terminal() || (e.id() as usize) < m.x.tlen.get()
    }
    #[inline(always)]
    pub fn k_same_fn(a: G, b: G) -> bool {
        a == b
    }
    #[inline(always)]
    pub fn k_is_terminal_fn(_m: &KManager, g: G) -> bool {
        let n = g & 0xF;
        g == n * 0x1111
    }
    #[inline(always)]
    pub fn k_reduced(_m: &KManager, _l: LevelNo, ch: &[KEdge; ARITY]) -> bool {
        ch[0].0 != ch[1].0
    }

    /// value of edge `e` under assignment `a` (0..4)
    #[inline(always)]
    pub fn val_at(m: &KManager, e: &KEdge, a: usize) -> Num {
        let id = ((m.g(e) >> (4 * a)) & 0xF) as usize;
        tval(m, id.min(NTERM - 1))
    }
    pub fn num_op(op: MTBDDOp, x: &Num, y: &Num) -> Num {
        use std::cmp::Ordering;
        match op {
            MTBDDOp::Add => x.add(y),
            MTBDDOp::Sub => x.sub(y),
            MTBDDOp::Mul => x.mul(y),
            MTBDDOp::Div => x.div(y),
            MTBDDOp::Min => match x.partial_cmp(y) {
                Some(Ordering::Greater) => *y,
                Some(_) => *x,
                None => Num::nan(),
            },
            _ => match x.partial_cmp(y) {
                Some(Ordering::Less) => *y,
                Some(_) => *x,
                None => Num::nan(),
            },
        }
    }
    pub const RANK_BIN: u32 = 1;
    pub const RANK_ITE: u32 = 2;
    pub const RANK_RESTRICT: u32 = 3;
    pub fn k_rank(op: MTBDDOp) -> u32 {
        use MTBDDOp::*;
        match op { Ite => RANK_ITE, Restrict => RANK_RESTRICT, _ => RANK_BIN }
    }
    /// `r` is a correct value for the cache key: pointwise lifting of the terminal operation
    pub fn k_sem_ok(m: &KManager, op: MTBDDOp, ops: &[Borrowed<KEdge>], nums: &[u32], r: &KEdge) -> bool {
        use MTBDDOp::*;
        let mut ok = nums.len() == 0;
        match op {
            Add | Sub | Mul | Div | Min | Max => {
                assert!(ops.len() == 2, "C06: cache key arity matches the operator");
                macro_rules! at { ($a:expr) => {
                    ok = ok && val_at(m, r, $a) == num_op(op, &val_at(m, &ops[0], $a), &val_at(m, &ops[1], $a));
                } }
                at!(0); at!(1); at!(2); at!(3);
            }
            Ite => {
                assert!(ops.len() == 3, "C06: cache key arity matches the operator");
                macro_rules! at { ($a:expr) => {
                    let c = val_at(m, &ops[0], $a);
                    let want = if c.is_zero() { val_at(m, &ops[2], $a) } else { val_at(m, &ops[1], $a) };
                    ok = ok && val_at(m, r, $a) == want;
                } }
                at!(0); at!(1); at!(2); at!(3);
            }
            _ => {
                assert!(false, "HARNESS: operator not modelled by the MTBDD oracle");
            }
        }
        ok
    }
    /// the condition of `ite` must be 0-1-valued
    pub fn is_01(m: &KManager, e: &KEdge) -> bool {
        let mut ok = true;
        macro_rules! at { ($a:expr) => { let c = val_at(m, e, $a); ok = ok && (c.is_zero() || c.is_one()); } }
        at!(0); at!(1); at!(2); at!(3);
        ok
    }
}
use kind::*;

include!("../../common/kmanager.rs");

#[cfg(kani)]
mod proofs;
