//! Step harnesses for the MTBDD rules (C10 lifting).
use super::*;
use oxidd_core::function::{NumberBase, PseudoBooleanFunction};
use oxidd_rules_mtbdd::{MTBDDFunction, MTBDDOp};
use std::cell::{Cell, UnsafeCell};

pub type B = MTBDDFunction<KFunc>;
pub type Setup = KManager<'static>;

#[cfg(not(feature = "real-i64"))]
fn any_num() -> Num {
    super::num::any_k8()
}
#[cfg(feature = "real-i64")]
fn any_num() -> Num {
    use oxidd_rules_mtbdd::terminal::I64;
    match kani::any::<u8>() & 3 { 0 => I64::NaN, 1 => I64::MinusInf, 2 => I64::PlusInf, _ => I64::Num(kani::any()) }
}

/// arbitrary terminal table (<= 3 distinct values, capacity up to 4) and an arbitrary
/// well-formed diagram with <= `max_init` nodes over it
pub fn setup_m(top_rank: u32, max_init: usize, allowed: &'static [KOp]) -> Setup {
    let tinit: usize = kani::any();
    kani::assume(tinit >= 1 && tinit <= 3);
    let tcap: usize = kani::any();
    kani::assume(tcap >= tinit && tcap <= NTERM);
    let x = KExtra {
        tvals: UnsafeCell::new([any_num(), any_num(), any_num(), Num::zero()]),
        tlen: Cell::new(tinit),
        tinit,
        tcap,
    };
    let init: usize = kani::any();
    kani::assume(init <= max_init);
    let cap: usize = kani::any();
    kani::assume(cap >= init && cap <= N);
    let mut cache = KCache::step(top_rank, 0);
    cache.set_allowed(allowed);
    sym::any_manager(init, max_init, cap, cache, x, sym::id_order())
}

pub fn post_struct(s: &Setup, r: &AllocResult<KEdge>) {
    let m = s;
    assert!(m.wf(), "C01,C03: diagram stays ordered, reduced and duplicate-free; terminals hash-consed");
    assert!(m.ghost_ok(), "C03: pre-existing nodes are unchanged");
    match r {
        Ok(e) => {
            assert!(k_canonical_edge(m, e) && (e.id() as usize) < NTERM + m.len.get(), "C01: result is a valid edge");
            let exp = if e.id() == m.watch { 1 } else { 0 } + m.new_parent_refs();
            assert!(m.wrc.get() == exp, "C05: net reference change = +1 for the returned handle + edges stored in newly created nodes, 0 on every other node/terminal");
        }
        Err(_) => {
            assert!(m.oom.get(), "C14: out-of-memory is only reported when a node or terminal allocation actually failed");
            assert!(m.wrc.get() == m.new_parent_refs(), "C14,C05: a failed operation releases every reference it acquired");
        }
    }
}
pub fn covers(s: &Setup, r: &AllocResult<KEdge>) {
    kani::cover!(s.cache.adds.get() > 0 && r.is_ok(), "non-terminal path with cache insertion");
    kani::cover!(s.cache.hits.get() >= 2, "oracle consulted for both cofactors");
    kani::cover!(s.created.get() > 0, "node created");
    kani::cover!(s.x.tlen.get() > s.x.tinit, "opt: terminal created");
    kani::cover!(r.is_err(), "out-of-memory path");
}

macro_rules! mstep_bin {
    ($name:ident, $f:ident, $op:expr, $mi:expr) => {
        #[kani::proof]
        #[kani::unwind(3)]
        fn $name() {
            let mut s = setup_m(RANK_BIN, $mi, &[$op]);
            let f = sym::any_edge(&s, s.init_c.get());
            let g = sym::any_edge(&s, s.init_c.get());
            s.cache.top_level = s.min_level(&[f.borrowed(), g.borrowed()]);
            // operand values per assignment, read before the operation
            let fv = [val_at(&s, &f, 0), val_at(&s, &f, 1), val_at(&s, &f, 2), val_at(&s, &f, 3)];
            let gv = [val_at(&s, &g, 0), val_at(&s, &g, 1), val_at(&s, &g, 2), val_at(&s, &g, 3)];
            let r = B::$f(&s, &f, &g);
            post_struct(&s, &r);
            if let Ok(e) = &r {
                assert!(val_at(&s, e, 0) == num_op($op, &fv[0], &gv[0]) && val_at(&s, e, 1) == num_op($op, &fv[1], &gv[1])
                    && val_at(&s, e, 2) == num_op($op, &fv[2], &gv[2]) && val_at(&s, e, 3) == num_op($op, &fv[3], &gv[3]),
                    "C10: result is the pointwise lifting of the terminal operation");
            }
            covers(&s, &r);
        }
    };
}
mstep_bin!(step_add, add_edge, MTBDDOp::Add, 2);
mstep_bin!(step_sub, sub_edge, MTBDDOp::Sub, 2);
mstep_bin!(step_mul, mul_edge, MTBDDOp::Mul, 2);
mstep_bin!(step_div, div_edge, MTBDDOp::Div, 2);
mstep_bin!(step_min, min_edge, MTBDDOp::Min, 2);
mstep_bin!(step_max, max_edge, MTBDDOp::Max, 2);
mstep_bin!(step_add_n3, add_edge, MTBDDOp::Add, 3);
mstep_bin!(step_sub_n3, sub_edge, MTBDDOp::Sub, 3);
mstep_bin!(step_mul_n3, mul_edge, MTBDDOp::Mul, 3);
mstep_bin!(step_div_n3, div_edge, MTBDDOp::Div, 3);
mstep_bin!(step_min_n3, min_edge, MTBDDOp::Min, 3);
mstep_bin!(step_max_n3, max_edge, MTBDDOp::Max, 3);

#[kani::proof]
#[kani::unwind(3)]
fn step_ite() {
    let mut s = setup_m(RANK_ITE, 2, &[MTBDDOp::Ite]);
    let f = sym::any_edge(&s, s.init_c.get());
    let g = sym::any_edge(&s, s.init_c.get());
    let h = sym::any_edge(&s, s.init_c.get());
    kani::assume(is_01(&s, &f));
    s.cache.miss_arity = 3;
    s.cache.top_level = s.min_level(&[f.borrowed(), g.borrowed(), h.borrowed()]);
    let w = |a: usize| if val_at(&s, &f, a).is_zero() { val_at(&s, &h, a) } else { val_at(&s, &g, a) };
    let want = [w(0), w(1), w(2), w(3)];
    let r = B::ite_edge(&s, &f, &g, &h);
    post_struct(&s, &r);
    if let Ok(e) = &r {
        assert!(val_at(&s, e, 0) == want[0] && val_at(&s, e, 1) == want[1] && val_at(&s, e, 2) == want[2] && val_at(&s, e, 3) == want[3],
            "C10: ite selects the then/else value pointwise by the 0-1-valued condition");
    }
    covers(&s, &r);
}

/// constant and var
#[kani::proof]
#[kani::unwind(3)]
fn base_constant_var() {
    let s = setup_m(RANK_BIN, 2, &[]);
    if kani::any() {
        let v = any_num();
        let r = B::constant_edge(&s, v);
        if let Ok(e) = &r {
            assert!(e.is_terminal() && *k_terminal_ref(&s, e.id()) == v, "C10: constant(v) is the terminal v");
        }
        assert!(s.wf(), "C03,C01: terminal table stays duplicate-free");
        kani::cover!(r.is_err(), "terminal table full");
        kani::cover!(r.is_ok() && s.x.tlen.get() > s.x.tinit, "new terminal");
    } else {
        let var: VarNo = kani::any();
        kani::assume((var as usize) < L);
        let r = B::var_edge(&s, var);
        if let Ok(e) = &r {
            let l = s.var2level[var as usize] as usize;
            assert!(val_at(&s, e, 0) == if 0 >> l & 1 == 1 { Num::one() } else { Num::zero() }
                && val_at(&s, e, 1) == if 1 >> l & 1 == 1 { Num::one() } else { Num::zero() }
                && val_at(&s, e, 2) == if 2 >> l & 1 == 1 { Num::one() } else { Num::zero() }
                && val_at(&s, e, 3) == if 3 >> l & 1 == 1 { Num::one() } else { Num::zero() },
                "C10: var(v) is 1 where v is true and 0 elsewhere");
        }
        assert!(s.wf(), "C03: diagram well-formed after var");
        let exp = match &r { Ok(e) => if e.id() == s.watch { 1 } else { 0 }, Err(_) => 0 } + s.new_parent_refs();
        assert!(s.wrc.get() == exp, "C05,C14: var releases its terminals on failure and holds exactly the stored edges on success");
        kani::cover!(r.is_ok(), "var succeeds");
        kani::cover!(r.is_err(), "var out of memory");
    }
}

/// CBMC pitfall regression probe (see common/kmanager.rs): a node's first child read through
/// a reference with a symbolic node index must agree with the assumed well-formedness
#[kani::proof]
#[kani::unwind(5)]
fn probe_child0_by_ref() {
    let s = setup_m(RANK_BIN, 3, &[]);
    let i: usize = kani::any();
    kani::assume(i < s.init_c.get());
    let n = s.node(i);
    use oxidd_core::InnerNode;
    let c = n.child(0);
    assert!(((c.0 & !TAG_BIT) as usize) < NTERM + s.init_c.get(), "HARNESS: first child read through a reference agrees with the assumed well-formedness");
    assert!(s.wf_node(i), "HARNESS: well-formedness of a symbolically indexed node follows from the assumption");
    kani::cover!(s.init_c.get() >= 2 && i == 1, "second node");
}
