//! C12(b): `oxidd_core::util::num::Natural` (mantissa * 2^exp big natural) against
//! exact u128 arithmetic on operands whose results fit 128 bits (1-2 digit mantissas,
//! exponents < 128), plus the documented error value (NaN) for inexact right shifts.
use oxidd_core::util::num::Natural;
use std::cmp::Ordering;

/// exact value of a (non-NaN) Natural with at most two mantissa digits and a total width <= 128 bit
fn value(n: &Natural) -> Option<u128> {
    if n.is_nan() {
        return None;
    }
    let m = n.mantissa();
    if m.len() > 2 || n.bit_width() > 128 {
        return None;
    }
    let lo = if m.len() > 0 { m[0] as u128 } else { 0 };
    let hi = if m.len() > 1 { m[1] as u128 } else { 0 };
    let mant = lo | (hi << 64);
    let e = n.exp();
    if mant == 0 {
        return Some(0);
    }
    if e >= 128 {
        return None;
    }
    Some(mant << e)
}
/// representation invariant observable through the public API: odd mantissa, zero has exponent 0
fn repr_ok(n: &Natural) -> bool {
    if n.is_nan() {
        return true;
    }
    let m = n.mantissa();
    if m.len() == 0 || (m.len() == 1 && m[0] == 0) {
        return n.exp() == 0;
    }
    m[0] & 1 == 1 && m[m.len() - 1] != 0
}

#[kani::proof]
#[kani::unwind(4)]
fn c12_natural_from_u128_roundtrip() {
    let v: u128 = kani::any();
    let n = Natural::from(v);
    assert!(value(&n) == Some(v), "C12: Natural::from(u128) denotes exactly that number");
    assert!(repr_ok(&n), "C12: Natural::from(u128) is in normal form (odd mantissa)");
    assert!(u128::try_from(&n) == Ok(v), "C12: conversion Natural -> u128 is exact");
    if v <= u64::MAX as u128 {
        assert!(u64::try_from(&n) == Ok(v as u64), "C12: conversion Natural -> u64 is exact");
    } else {
        assert!(u64::try_from(&n).is_err(), "C12: conversion Natural -> u64 reports numbers that do not fit");
    }
    kani::cover!(v > u64::MAX as u128 && v & 1 == 1, "two-digit mantissa");
    kani::cover!(v.leading_zeros() + v.trailing_zeros() >= 64 && v > u64::MAX as u128, "wide number with single-digit mantissa");
    std::mem::forget(n);
}

#[kani::proof]
#[kani::unwind(4)]
fn c12_natural_from_u64_roundtrip() {
    let v: u64 = kani::any();
    let n = Natural::from(v);
    assert!(value(&n) == Some(v as u128), "C12: Natural::from(u64) denotes exactly that number");
    assert!(repr_ok(&n), "C12: Natural::from(u64) is in normal form");
    assert!(u64::try_from(&n) == Ok(v), "C12: conversion Natural -> u64 is exact");
    assert!(u128::try_from(&n) == Ok(v as u128), "C12: conversion Natural -> u128 is exact");
    std::mem::forget(n);
}

/// equality for every pair of 128-bit values
#[kani::proof]
#[kani::unwind(18)]
fn c12_natural_eq() {
    let (a, b): (u128, u128) = (kani::any(), kani::any());
    let (x, y) = (Natural::from(a), Natural::from(b));
    assert!((x == y) == (a == b), "C12: equality of naturals is numeric equality");
    kani::cover!(a != b && a.leading_zeros() == b.leading_zeros() && a.trailing_zeros() == b.trailing_zeros(), "same width and exponent, different mantissa");
    std::mem::forget((x, y));
}

/// order: operands m * 2^e with 16-bit mantissas anywhere in the 128-bit range (the comparison
/// works on aligned most-significant digits; full-width mantissas made the query time out)
#[kani::proof]
#[kani::unwind(5)]
fn c12_natural_cmp() {
    let (m1, m2): (u16, u16) = (kani::any(), kani::any());
    let (e1, e2): (u32, u32) = (kani::any(), kani::any());
    kani::assume(e1 <= 112 && e2 <= 112);
    let (a, b) = ((m1 as u128) << e1, (m2 as u128) << e2);
    let (x, y) = (Natural::from(a), Natural::from(b));
    assert!(x.partial_cmp(&y) == Some(a.cmp(&b)), "C12: comparison of naturals is the numeric order");
    kani::cover!(a != b && a.leading_zeros() == b.leading_zeros() && e1 != e2, "same width, different exponents");
    kani::cover!(a > u64::MAX as u128 && b <= u64::MAX as u128, "across the digit boundary");
    std::mem::forget((x, y));
}

#[kani::proof]
#[kani::unwind(5)]
fn c12_natural_shift() {
    let v: u128 = kani::any();
    let k: u32 = kani::any();
    kani::assume(k <= 127);
    let n = Natural::from(v);
    if kani::any() {
        kani::assume(v == 0 || v.leading_zeros() >= k);
        let r = n << k;
        assert!(value(&r) == Some(v << k), "C12: left shift multiplies by 2^k exactly");
        assert!(repr_ok(&r), "C12: left shift keeps the normal form");
        std::mem::forget(r);
    } else {
        let r = n >> k;
        if v & ((1u128 << k) - 1) == 0 {
            assert!(value(&r) == Some(v >> k), "C12: exact right shift divides by 2^k");
            assert!(repr_ok(&r), "C12: right shift keeps the normal form");
        } else {
            assert!(r.is_nan(), "C12: an inexact right shift yields the error value");
        }
        std::mem::forget(r);
    }
}

/// exponent overflow yields the error value, NaN is absorbing
#[kani::proof]
#[kani::unwind(4)]
fn c12_natural_exp_overflow() {
    let v: u64 = kani::any();
    kani::assume(v != 0);
    let n = Natural::from(v) << u64::MAX;
    assert!(n.is_nan(), "C12: exponent overflow yields the error value");
    let z = Natural::from(0u64) << u64::MAX;
    assert!(value(&z) == Some(0), "C12: zero shifted left stays zero");
    let nan2 = (Natural::from(3u64) >> 1u64) << 5u64;
    assert!(nan2.is_nan(), "C12: the error value is absorbing for shifts");
    std::mem::forget((n, z, nan2));
}

/// single-digit operands with arbitrary exponents: x * 2^e1 + y * 2^e2 (result up to 128 bit)
#[kani::proof]
#[kani::unwind(5)]
fn c12_natural_add_shifted() {
    let (x, y): (u64, u64) = (kani::any(), kani::any());
    let (e1, e2): (u32, u32) = (kani::any(), kani::any());
    kani::assume(e1 <= 63 && e2 <= 63);
    let (a, b) = ((x as u128) << e1, (y as u128) << e2);
    kani::assume(a.checked_add(b).is_some());
    let r = Natural::from(a) + Natural::from(b);
    assert!(value(&r) == Some(a + b), "C12: sum of naturals is exact");
    assert!(repr_ok(&r), "C12: sum is in normal form");
    kani::cover!(a.trailing_zeros() != b.trailing_zeros() && a != 0 && b != 0 && a + b > u64::MAX as u128, "different exponents, two-digit result");
    std::mem::forget(r);
}

/// small operands (<= 16 significant bits each) anywhere in a 128-bit window: all digit-boundary carries
#[kani::proof]
#[kani::unwind(5)]
fn c12_natural_add_u128_sparse() {
    let (x, y): (u128, u128) = (kani::any(), kani::any());
    // two-digit mantissas with few significant bits: top 8 and bottom 8 bits of a 72..128 bit window
    let (w1, w2): (u32, u32) = (kani::any(), kani::any());
    kani::assume(w1 >= 60 && w1 <= 120 && w2 >= 60 && w2 <= 120);
    let a = ((x & 0xFF) << w1) | ((x >> 8) & 0xFF);
    let b = ((y & 0xFF) << w2) | ((y >> 8) & 0xFF);
    kani::assume(a.checked_add(b).is_some());
    let r = Natural::from(a) + Natural::from(b);
    assert!(value(&r) == Some(a + b), "C12: sum of naturals is exact");
    assert!(repr_ok(&r), "C12: sum is in normal form");
    kani::cover!(a > u64::MAX as u128 && a & 1 == 1 && b > u64::MAX as u128 && b & 1 == 1, "both operands with two-digit mantissa");
    std::mem::forget(r);
}

/// clone / clone_from between inline (single-digit) representations; heap-allocated
/// mantissas make the allocation size symbolic, which CBMC cannot handle within memory
#[kani::proof]
#[kani::unwind(5)]
fn c12_natural_clone_inline() {
    let (a, b): (u64, u64) = (kani::any(), kani::any());
    let x = Natural::from(a);
    let c = x.clone();
    assert!(value(&c) == Some(a as u128), "C12: clone denotes the same number");
    let mut y = Natural::from(b);
    y.clone_from(&x);
    assert!(value(&y) == Some(a as u128), "C12: clone_from denotes the source's number");
    std::mem::forget((x, c, y));
}
