//! C10(a): `oxidd_rules_mtbdd::terminal::I64` against an exact i128 model,
//! full 64-bit operands, all four special values.
use oxidd_core::function::NumberBase;
use oxidd_rules_mtbdd::terminal::I64;
use std::cmp::Ordering;

/// Model value: None = NaN, otherwise an extended integer
/// (`i128::MIN` = -inf, `i128::MAX` = +inf, else the exact number).
#[derive(Clone, Copy, PartialEq, Eq)]
enum M {
    NaN,
    NInf,
    PInf,
    Z(i128),
}

fn any_i64t() -> (I64, M) {
    let sel: u8 = kani::any();
    match sel & 3 {
        0 => (I64::NaN, M::NaN),
        1 => (I64::MinusInf, M::NInf),
        2 => (I64::PlusInf, M::PInf),
        _ => {
            let v: i64 = kani::any();
            (I64::Num(v), M::Z(v as i128))
        }
    }
}

/// Documented mapping of an exact integer result into the terminal type
fn repr(x: i128) -> I64 {
    if x > i64::MAX as i128 {
        I64::PlusInf
    } else if x < i64::MIN as i128 {
        I64::MinusInf
    } else {
        I64::Num(x as i64)
    }
}
fn sgn(m: M) -> i32 {
    match m {
        M::NaN => 0,
        M::NInf => -1,
        M::PInf => 1,
        M::Z(z) => z.signum() as i32,
    }
}
fn inf_of(s: i32) -> I64 {
    if s > 0 {
        I64::PlusInf
    } else if s < 0 {
        I64::MinusInf
    } else {
        I64::NaN
    }
}

fn spec_add(a: M, b: M) -> I64 {
    match (a, b) {
        (M::NaN, _) | (_, M::NaN) => I64::NaN,
        (M::Z(x), M::Z(y)) => repr(x + y),
        (M::PInf, M::NInf) | (M::NInf, M::PInf) => I64::NaN,
        (M::PInf, _) | (_, M::PInf) => I64::PlusInf,
        (M::NInf, _) | (_, M::NInf) => I64::MinusInf,
    }
}
fn neg(m: M) -> M {
    match m {
        M::NaN => M::NaN,
        M::NInf => M::PInf,
        M::PInf => M::NInf,
        M::Z(z) => M::Z(-z),
    }
}
fn spec_sub(a: M, b: M) -> I64 {
    spec_add(a, neg(b))
}
fn spec_mul(a: M, b: M) -> I64 {
    match (a, b) {
        (M::NaN, _) | (_, M::NaN) => I64::NaN,
        (M::Z(x), M::Z(y)) => repr(x * y),
        // at least one infinity: 0 * inf = NaN, else infinity of the sign product
        _ => inf_of(sgn(a) * sgn(b)),
    }
}
fn spec_div(a: M, b: M) -> I64 {
    match (a, b) {
        (M::NaN, _) | (_, M::NaN) => I64::NaN,
        (M::Z(x), M::Z(0)) => inf_of(x.signum() as i32), // x/0 = +-inf by sign of x, 0/0 = NaN
        (M::Z(x), M::Z(y)) => repr(x / y),               // truncation toward zero (i128 `/`)
        (M::Z(_), _) => I64::Num(0),                     // finite / inf
        (_, M::Z(y)) => inf_of(sgn(a) * if y < 0 { -1 } else { 1 }), // inf / finite (inf/0 = inf)
        _ => I64::NaN,                                   // inf / inf
    }
}
fn spec_cmp(a: M, b: M) -> Option<Ordering> {
    fn key(m: M) -> i128 {
        match m {
            M::NInf => i128::MIN,
            M::PInf => i128::MAX,
            M::Z(z) => z,
            M::NaN => 0,
        }
    }
    match (a, b) {
        (M::NaN, M::NaN) => Some(Ordering::Equal),
        (M::NaN, _) | (_, M::NaN) => None,
        _ => Some(key(a).cmp(&key(b))),
    }
}

#[kani::proof]
fn c10_i64_add() {
    let ((a, ma), (b, mb)) = (any_i64t(), any_i64t());
    let r = a + b;
    assert!(r == spec_add(ma, mb), "C10: I64 add == exact result / infinity of its sign / NaN");
    assert!(NumberBase::add(&a, &b) == r, "C10: NumberBase::add agrees with Add");
    kani::cover!(matches!((a, b), (I64::Num(_), I64::Num(_))) && r == I64::MinusInf, "negative overflow reachable");
    kani::cover!(matches!((a, b), (I64::Num(_), I64::Num(_))) && r == I64::PlusInf, "positive overflow reachable");
}

#[kani::proof]
fn c10_i64_sub() {
    let ((a, ma), (b, mb)) = (any_i64t(), any_i64t());
    let r = a - b;
    assert!(r == spec_sub(ma, mb), "C10: I64 sub == exact result / infinity of its sign / NaN");
    assert!(NumberBase::sub(&a, &b) == r, "C10: NumberBase::sub agrees with Sub");
    kani::cover!(matches!((a, b), (I64::Num(_), I64::Num(_))) && r == I64::MinusInf, "negative overflow reachable");
    kani::cover!(matches!((a, b), (I64::Num(0), I64::Num(_))) && r == I64::PlusInf, "0 - i64::MIN reachable");
}

#[kani::proof]
fn c10_i64_mul() {
    let ((a, ma), (b, mb)) = (any_i64t(), any_i64t());
    let r = a * b;
    assert!(r == spec_mul(ma, mb), "C10: I64 mul == exact result / infinity of its sign / NaN");
    assert!(NumberBase::mul(&a, &b) == r, "C10: NumberBase::mul agrees with Mul");
    kani::cover!(matches!((a, b), (I64::Num(_), I64::Num(_))) && r == I64::MinusInf, "negative overflow reachable");
}

/// Division, everything except finite / non-zero finite (no divider circuit involved)
#[kani::proof]
fn c10_i64_div_special() {
    let ((a, ma), (b, mb)) = (any_i64t(), any_i64t());
    kani::assume(!matches!((a, b), (I64::Num(_), I64::Num(d)) if d != 0));
    let r = a / b;
    assert!(r == spec_div(ma, mb), "C10: I64 div: x/0 = +-inf by sign of x; finite/inf = 0; inf/finite = +-inf; undefined forms NaN");
    assert!(NumberBase::div(&a, &b) == r, "C10: NumberBase::div agrees with Div");
    kani::cover!(matches!(a, I64::Num(_)) && b == I64::Num(0) && r == I64::MinusInf, "x/0 negative reachable");
    kani::cover!(a == I64::Num(0) && b == I64::Num(0) && r == I64::NaN, "0/0 reachable");
}

/// finite / non-zero finite: the result must be the unique truncated quotient,
/// stated through the division lemma a = q*d + r, |r| < |d|, sign(r) in {0, sign(a)}
/// (no wide divider in the specification). Dividend full 64 bit; divisor
/// restricted to DBITS bits (sign-extended) or one of i64::MIN, i64::MAX.
fn div_lemma(dbits: u32) {
    let a: i64 = kani::any();
    let d: i64 = kani::any();
    kani::assume(d != 0);
    let lim = 1i64 << (dbits - 1);
    kani::assume((d >= -lim && d < lim) || d == i64::MIN || d == i64::MAX);
    let r = I64::Num(a) / I64::Num(d);
    if a == i64::MIN && d == -1 {
        assert!(r == I64::PlusInf, "C10: I64 div: i64::MIN / -1 is +inf (exact result not representable)");
    } else {
        assert!(matches!(r, I64::Num(_)), "C10: I64 div of finite by non-zero finite is finite unless MIN / -1");
        match r {
            I64::Num(q) => {
                let rem = a as i128 - (q as i128) * (d as i128);
                let ad = if d < 0 { -(d as i128) } else { d as i128 };
                let arem = if rem < 0 { -rem } else { rem };
                assert!(arem < ad && (rem == 0 || (rem < 0) == (a < 0)), "C10: I64 div truncates toward zero (division lemma)");
            }
            _ => {}
        }
    }
    kani::cover!(a == i64::MIN && d == -1, "MIN / -1 reachable");
    kani::cover!(a < 0 && d > 1 && a % d != 0, "negative inexact quotient reachable");
}
#[kani::proof]
fn c10_i64_div_d8() {
    div_lemma(8)
}
/// quick variant: dividend restricted to 32 significant bits (sign-extended) or i64::MIN/MAX
#[kani::proof]
fn c10_i64_div_a32_d8() {
    let a: i64 = kani::any();
    let d: i64 = kani::any();
    kani::assume(d != 0 && d >= -128 && d < 128);
    kani::assume((a >= i32::MIN as i64 && a <= i32::MAX as i64) || a == i64::MIN || a == i64::MAX);
    let r = I64::Num(a) / I64::Num(d);
    if a == i64::MIN && d == -1 {
        assert!(r == I64::PlusInf, "C10: I64 div: i64::MIN / -1 is +inf (exact result not representable)");
    } else {
        assert!(matches!(r, I64::Num(_)), "C10: I64 div of finite by non-zero finite is finite unless MIN / -1");
        match r {
            I64::Num(q) => {
                let rem = a as i128 - (q as i128) * (d as i128);
                let ad = if d < 0 { -(d as i128) } else { d as i128 };
                let arem = if rem < 0 { -rem } else { rem };
                assert!(arem < ad && (rem == 0 || (rem < 0) == (a < 0)), "C10: I64 div truncates toward zero (division lemma)");
            }
            _ => {}
        }
    }
    kani::cover!(a == i64::MIN && d == -1, "MIN / -1 reachable");
    kani::cover!(a < 0 && d > 1 && a % d != 0, "negative inexact quotient reachable");
}
#[kani::proof]
fn c10_i64_div_d16() {
    div_lemma(16)
}
#[kani::proof]
fn c10_i64_div_d64() {
    div_lemma(64)
}

#[kani::proof]
fn c10_i64_cmp() {
    let ((a, ma), (b, mb)) = (any_i64t(), any_i64t());
    assert!(a.partial_cmp(&b) == spec_cmp(ma, mb), "C10: I64 partial_cmp == extended-integer order, NaN only comparable to itself");
    assert!((a == b) == (ma == mb), "C10: I64 Eq is structural equality of the value");
    assert!((a.partial_cmp(&b) == Some(Ordering::Equal)) == (a == b), "C10: I64 partial_cmp consistent with Eq");
}
