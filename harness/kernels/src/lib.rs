//! Kani harnesses over leaf kernels of /repo (real code, path dependencies).
#![allow(unused, clippy::all)]

#[cfg(kani)]
mod i64_terminal;
#[cfg(kani)]
mod natural;
