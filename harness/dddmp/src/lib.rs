//! C15 (kernels): the real DDDMP codec / sanitiser / parser kernels of `oxidd-dump`
//! (via the `verif-hooks` wrappers) on arbitrary small inputs.
#![allow(unused, clippy::all)]

#[cfg(kani)]
mod proofs;
