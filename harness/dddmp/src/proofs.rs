//! see lib.rs
use oxidd_dump::dddmp::verif_hooks as k;
use std::borrow::Cow;

/// error messages are not the subject: `format!` gets an empty body
fn stub_format(_args: std::fmt::Arguments<'_>) -> String {
    String::new()
}

/// exporter -> importer: every usize survives the escaped 7-bit codec, and the reader
/// consumes exactly the bytes the writer produced.
#[kani::proof]
#[kani::unwind(13)]
#[kani::stub(alloc::fmt::format, stub_format)]
fn codec_roundtrip() {
    let v: usize = kani::any();
    let mut buf = [0xffu8; 24];
    let n = {
        let mut w: &mut [u8] = &mut buf[..];
        let r = k::encode_7bit(&mut w, v);
        assert!(r.is_ok(), "C15: the 7-bit encoder does not fail on an in-memory writer");
        std::mem::forget(r);
        24 - w.len()
    };
    assert!(n >= 1 && n <= 20, "C15: an encoded usize takes 1..=20 bytes");
    let mut rd: &[u8] = &buf[..n];
    let r = k::decode_7bit(&mut rd);
    assert!(matches!(&r, Ok(x) if *x == v), "C15: every integer the exporter writes is accepted by the importer: decode_7bit(encode_7bit(v)) == v");
    assert!(rd.is_empty(), "C15: the reader consumes exactly the bytes of one encoded integer");
    kani::cover!(n >= 11, "encoding with escapes and ten groups");
    kani::cover!(v == 0x0a, "value needing an escape");
    std::mem::forget(r);
}

/// arbitrary (malformed / truncated / over-long) byte strings: the decoder returns an
/// error or the mathematically denoted integer — never a silently wrapped one, never a panic.
#[kani::proof]
#[kani::unwind(14)]
#[kani::stub(alloc::fmt::format, stub_format)]
fn decode_any_12() {
    let bytes: [u8; 12] = kani::any();
    let len: usize = kani::any();
    kani::assume(len <= 12);
    let mut rd: &[u8] = &bytes[..len];
    let r = k::decode_7bit(&mut rd);
    // reference over u128 (no escapes in the reference: bytes that need escaping are excluded)
    let mut i = 0;
    let mut plain = true;
    while i < 12 {
        if i < len && bytes[i] == 0 {
            plain = false;
        }
        i += 1;
    }
    if plain {
        let mut val: u128 = 0;
        let mut done = false;
        let mut used = 0;
        let mut i = 0;
        while i < 12 {
            if i < len && !done {
                val = (val << 7) | (bytes[i] >> 1) as u128;
                used = i + 1;
                if bytes[i] & 1 == 0 {
                    done = true;
                }
            }
            i += 1;
        }
        match &r {
            Ok(x) => {
                assert!(done, "C15: a truncated integer is rejected");
                assert!(val <= usize::MAX as u128 && *x as u128 == val, "C15: the importer returns the denoted integer or an error, never a wrapped value");
                assert!(rd.len() == len - used, "C15: exactly the bytes of the integer are consumed");
            }
            Err(_) => assert!(!done || val > usize::MAX as u128, "C15: a well-formed integer that fits is accepted"),
        }
        kani::cover!(r.is_ok() && used == 10, "ten groups accepted");
        kani::cover!(r.is_err() && done, "over-long integer rejected");
        kani::cover!(r.is_err() && !done, "truncated integer rejected");
    }
    std::mem::forget(r);
}

/// escape layer alone: arbitrary 2 bytes
#[kani::proof]
#[kani::unwind(4)]
#[kani::stub(alloc::fmt::format, stub_format)]
fn unescape_any() {
    let bytes: [u8; 2] = kani::any();
    let len: usize = kani::any();
    kani::assume(len <= 2);
    let mut rd: &[u8] = &bytes[..len];
    let r = k::read_unescape(&mut rd);
    let expect: Option<(u8, usize)> = if len == 0 {
        None
    } else if bytes[0] != 0 {
        Some((bytes[0], 1))
    } else if len < 2 {
        None
    } else {
        match bytes[1] {
            0 => Some((0, 2)),
            1 => Some((0x0a, 2)),
            2 => Some((0x0d, 2)),
            3 => Some((0x1a, 2)),
            _ => None,
        }
    };
    let ok = match (&r, expect) {
        (Ok(b), Some((e, used))) => *b == e && rd.len() == len - used,
        (Err(_), None) => true,
        _ => false,
    };
    assert!(ok, "C15: read_unescape inverts write_escaped; malformed escape sequences / truncation are errors, everything else is accepted");
    kani::cover!(r.is_ok() && len == 2 && bytes[0] == 0, "escape accepted");
    kani::cover!(r.is_err() && len == 2, "bad escape rejected");
    std::mem::forget(r);
}

fn bad(b: u8) -> bool {
    b == b' ' || b.is_ascii_control()
}

/// names the format cannot carry are sanitised as documented: every space / ASCII control
/// character becomes '_', everything else is kept; borrowed iff nothing was replaced.
fn sanitise(len: usize) {
    let raw: [u8; 3] = kani::any();
    kani::assume(raw[0] < 128 && raw[1] < 128 && raw[2] < 128);
    let s = unsafe { std::str::from_utf8_unchecked(&raw[..len]) };
    let r = k::replace_space_and_control(s);
    let out = r.as_bytes();
    assert!(out.len() == len, "C15: sanitising keeps the length of an ASCII name");
    let mut any_bad = false;
    let mut i = 0;
    while i < 3 {
        if i < len {
            if bad(raw[i]) {
                any_bad = true;
                assert!(out[i] == b'_', "C15: spaces and control characters in variable/function names are replaced by '_'");
            } else {
                assert!(out[i] == raw[i], "C15: all other characters of a name are kept");
            }
        }
        i += 1;
    }
    assert!(matches!(r, Cow::Owned(_)) == any_bad, "C15: a replacement is reported (owned result) iff one happened");
    kani::cover!(any_bad, "something replaced");
    kani::cover!(!any_bad && len > 0, "nothing replaced");
    std::mem::forget(r);
}
#[kani::proof]
#[kani::unwind(6)]
fn sanitise_len3() {
    sanitise(3)
}
#[kani::proof]
#[kani::unwind(6)]
fn sanitise_len1() {
    sanitise(1)
}

