// C13: cube picking (pick_cube, pick_cube_dd, pick_cube_dd_set) — base harnesses, no cache
// involved (linear recursion). The specification is a *semantic walk* over truth
// tables, which is kind-agnostic (BDD, BCDD, ZBDD as Boolean functions): at the
// top-most level the current function depends on, the variable is forced if one
// cofactor is false, otherwise it follows the caller's choice / the literal set;
// levels the function does not depend on stay don't-care.

use oxidd_core::util::OptBool;

/// `r` (truth table of the returned cube) is the cube obtained from `f` when every
/// non-forced decision is `free(level)` (`None` = any choice allowed)
pub fn cube_spec_ok(f: G, r: G, free: &[Option<bool>; L], literal_on_dont_care: bool) -> bool {
    if f == 0 {
        return r == 0;
    }
    let mut cur = f;
    let mut lits: G = !0;
    let mut ok = true;
    macro_rules! step { ($l:expr) => { if $l < L {
        // polarity of the variable in the returned cube
        let pol = cof0(r, $l) == 0;
        if depends(cur, $l) {
            let (t, e) = (cof1(cur, $l), cof0(cur, $l));
            ok = ok && depends(r, $l);
            if t == 0 { ok = ok && !pol; }
            else if e == 0 { ok = ok && pol; }
            else if let Some(c) = free[$l] { ok = ok && pol == c; }
            lits &= if pol { MASK[$l] } else { !MASK[$l] };
            cur = if pol { t } else { e };
        } else if depends(r, $l) {
            // The function does not care about this variable here. The cube may only fix it
            // if a literal set asks for exactly this polarity ("follows the polarity given in
            // the literal set"); otherwise it has to stay don't-care.
            ok = ok && literal_on_dont_care && free[$l] == Some(pol);
            lits &= if pol { MASK[$l] } else { !MASK[$l] };
        }
    } } }
    step!(0); step!(1); step!(2); step!(3);
    // the walk ends in "true", and the cube constrains exactly the collected literals
    ok && cur == !0 && r == lits
}

/// truth table of the cube described by a per-variable vector
pub fn cube_of_vec(m: &KManager, v: &[OptBool]) -> G {
    let mut r: G = !0;
    macro_rules! var { ($i:expr) => { if $i < L && $i < v.len() {
        let l = m.var2level[$i] as usize;
        match v[$i] { OptBool::True => r &= MASK[l], OptBool::False => r &= !MASK[l], OptBool::None => {} }
    } } }
    var!(0); var!(1); var!(2); var!(3);
    r
}

macro_rules! pick_cube_harnesses {
    ($mk:expr, $any_edge:expr) => {
        /// pick_cube and pick_cube_dd under the same (arbitrary) choice vector
        #[kani::proof]
        #[kani::unwind(6)]
        fn base_pick_cube() {
            let s = $mk(4);
            let f = $any_edge(&s);
            let ch: [bool; L] = k_any_bools();
            let free: [Option<bool>; L] = k_some_bools(&ch);
            let calls = std::cell::Cell::new([0u8; L]);
            let level_ok = std::cell::Cell::new(true);
            let v = B::pick_cube_edge(&s, &f, |m, e, l| {
                let mut c = calls.get();
                c[(l as usize).min(L - 1)] += 1;
                calls.set(c);
                level_ok.set(level_ok.get() && (l as usize) < L && !e.is_terminal() && m.level_of(e) == l);
                ch[(l as usize).min(L - 1)]
            });
            let fg = s.g(&f);
            assert!(v.is_none() == (fg == 0), "C13: pick_cube returns nothing exactly for the unsatisfiable function");
            assert!(level_ok.get(), "C13: the choice function is called with a node of the reported level");
            let c = calls.get();
            assert!(c[0] <= 1 && c[1] <= 1 && c[L - 1] <= 1, "C13: the choice function is called at most once per level");
            if let Some(v) = &v {
                assert!(v.len() == L, "C13: pick_cube reports one entry per variable");
                let r = cube_of_vec(&s, v);
                assert!(r != 0 && r & !fg == 0, "C13: pick_cube returns a cube that implies the function");
                assert!(cube_spec_ok(fg, r, &free, false), "C13: forced variables are forced, free variables follow the choice function, the rest is don't-care");
            }
            kani::cover!(v.is_some() && c[0] + c[1] >= 2, "two free choices");
            std::mem::forget(v);
        }
        #[kani::proof]
        #[kani::unwind(6)]
        fn base_pick_cube_dd() {
            let s = $mk(3);
            let f = $any_edge(&s);
            let ch: [bool; L] = k_any_bools();
            let free: [Option<bool>; L] = k_some_bools(&ch);
            let r = B::pick_cube_dd_edge(&s, &f, |_m, _e, l| ch[(l as usize).min(L - 1)]);
            let fg = s.g(&f);
            post_struct(&s, &r);
            if let Ok(e) = &r {
                assert!((s.g(e) == 0) == (fg == 0), "C13: pick_cube_dd returns false exactly for the unsatisfiable function");
                assert!(s.g(e) & !fg == 0, "C13: pick_cube_dd returns an implicant");
                assert!(cube_spec_ok(fg, s.g(e), &free, false), "C13: pick_cube_dd describes the same cube as pick_cube under the same choices");
            }
            kani::cover!(r.is_ok() && s.created.get() >= 2, "cube with two new nodes");
            kani::cover!(r.is_err(), "out-of-memory path");
        }
        #[kani::proof]
        #[kani::unwind(6)]
        fn base_pick_cube_dd_set() {
            let s = $mk(4);
            let f = $any_edge(&s);
            let lit = $any_edge(&s);
            kani::assume(is_cube(s.g(&lit)) && s.g(&lit) != 0);
            let lg = s.g(&lit);
            let mut free: [Option<bool>; L] = [None; L];
            macro_rules! lv { ($l:expr) => { if $l < L && depends(lg, $l) { free[$l] = Some(cof1(lg, $l) != 0); } } }
            lv!(0); lv!(1); lv!(2); lv!(3);
            let r = B::pick_cube_dd_set_edge(&s, &f, &lit);
            let fg = s.g(&f);
            post_struct(&s, &r);
            if let Ok(e) = &r {
                assert!((s.g(e) == 0) == (fg == 0), "C13: pick_cube_dd_set returns false exactly for the unsatisfiable function");
                assert!(s.g(e) & !fg == 0, "C13: pick_cube_dd_set returns an implicant");
                assert!(cube_spec_ok(fg, s.g(e), &free, true), "C13: unforced variables follow the polarity given in the literal set");
            }
            kani::cover!(r.is_ok() && support_size(lg) >= 2 && support_size(fg) >= 2, "two literals in the set");
        }
    };
}
pub fn k_any_bools() -> [bool; L] {
    let mut a = [false; L];
    macro_rules! e { ($i:expr) => { if $i < L { a[$i] = kani::any(); } } }
    e!(0); e!(1); e!(2); e!(3);
    a
}
pub fn k_some_bools(c: &[bool; L]) -> [Option<bool>; L] {
    let mut a = [None; L];
    macro_rules! e { ($i:expr) => { if $i < L { a[$i] = Some(c[$i]); } } }
    e!(0); e!(1); e!(2); e!(3);
    a
}
