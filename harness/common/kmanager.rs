// KManager: a solver-friendly, loop-free, array-backed implementation of
// `oxidd_core::Manager` (DESIGN.md §1.1). This file is `include!`d by each
// kind crate after it has defined (usually in `mod kind`, glob-imported):
//
//   consts  ARITY, NTERM (terminal id space), N (node slots), L (levels)
//   types   KTag, KTerminal, KTermRef<'a>, KRules, KOp, G (ghost semantics), KExtra
//   fns     k_collect, k_drop_children, g_terminal, g_node, g_tagged,
//           k_terminal_ref, k_get_terminal, k_reduced, k_spec, k_rank
//
// Everything here is an *environment stub* implementing the documented
// `Manager` / `LevelView` / `InnerNode` / `Edge` / `ApplyCache` contracts.

use std::cell::{Cell, UnsafeCell};
use std::hash::{Hash, Hasher};
use std::marker::PhantomData;
use std::ops::Range;

use oxidd_core::error::{DuplicateVarName, OutOfMemory};
use oxidd_core::function::{EdgeOfFunc, Function};
use oxidd_core::util::{AllocResult, Borrowed, BorrowedEdgeIter, DropWith, NodeSet};
use oxidd_core::{
    ApplyCache, Countable, DiagramRules, Edge, HasApplyCache, HasLevel, InnerNode, LevelNo,
    LevelView, Manager, ManagerRef, Node, NodeID, VarNo,
};

pub const TAG_BIT: u32 = 1 << 31;
pub const NT: u32 = NTERM as u32;

/// Expands `$body` once per node slot (loop-free; guards fold away since `N` is a constant)
macro_rules! for_slots {
    ($i:ident => $body:block) => {
        { const $i: usize = 0; if $i < N $body }
        { const $i: usize = 1; if $i < N $body }
        { const $i: usize = 2; if $i < N $body }
        { const $i: usize = 3; if $i < N $body }
        { const $i: usize = 4; if $i < N $body }
        { const $i: usize = 5; if $i < N $body }
        { const $i: usize = 6; if $i < N $body }
        { const $i: usize = 7; if $i < N $body }
    };
}
/// Expands `$body` once per level, bottom-most level first
macro_rules! for_levels_rev {
    ($l:ident => $body:block) => {
        { const $l: usize = 3; if $l < L $body }
        { const $l: usize = 2; if $l < L $body }
        { const $l: usize = 1; if $l < L $body }
        { const $l: usize = 0; if $l < L $body }
    };
}

// ---------------------------------------------------------------- Edge

#[derive(PartialEq, Eq, PartialOrd, Ord, Hash, Debug)]
pub struct KEdge(pub u32);

impl KEdge {
    #[inline(always)]
    pub fn id(&self) -> u32 {
        self.0 & !TAG_BIT
    }
    #[inline(always)]
    pub fn tagged(&self) -> bool {
        self.0 & TAG_BIT != 0
    }
    #[inline(always)]
    pub fn is_terminal(&self) -> bool {
        self.id() < NT
    }
    /// node slot index (only for inner nodes)
    #[inline(always)]
    pub fn slot(&self) -> usize {
        (self.id() - NT) as usize
    }
    /// unmanaged copy (no reference count change) — harness-side only
    #[inline(always)]
    pub fn raw(&self) -> KEdge {
        KEdge(self.0)
    }
}

impl Edge for KEdge {
    type Tag = KTag;
    #[inline(always)]
    fn borrowed(&self) -> Borrowed<'_, Self> {
        Borrowed::new(KEdge(self.0))
    }
    #[inline(always)]
    fn with_tag(&self, tag: KTag) -> Borrowed<'_, Self> {
        Borrowed::new(KEdge(self.id() | if tag.as_usize() != 0 { TAG_BIT } else { 0 }))
    }
    #[inline(always)]
    fn with_tag_owned(self, tag: KTag) -> Self {
        KEdge(self.id() | if tag.as_usize() != 0 { TAG_BIT } else { 0 })
    }
    #[inline(always)]
    fn tag(&self) -> KTag {
        KTag::from_usize(self.tagged() as usize)
    }
    #[inline(always)]
    fn node_id(&self) -> NodeID {
        self.id() as NodeID
    }
}

// ---------------------------------------------------------------- Node

/// NOTE (CBMC pitfall, probes dbgc1): keep the default Rust layout and this field order. With
/// `#[repr(C)]` / `level` first, or with a `&'static [_]` field anywhere in the manager, CBMC
/// mis-models reads of a node's first child through a reference (spurious counterexamples);
/// the harness `probe_child0_by_ref` guards against a regression.
pub struct KNode {
    pub children: UnsafeCell<[KEdge; ARITY]>,
    pub level: Cell<LevelNo>,
    /// ghost: semantics of the (untagged) node
    pub g: Cell<G>,
    /// value reported by `InnerNode::ref_count()`; arbitrary >= 1 in the symbolic pre-state
    pub rc: Cell<usize>,
}
impl KNode {
    #[inline(always)]
    pub fn ch(&self) -> &[KEdge; ARITY] {
        unsafe { &*self.children.get() }
    }
    #[inline(always)]
    pub fn same_children(&self, o: &[KEdge; ARITY]) -> bool {
        let c = self.ch();
        let mut eq = c[0].0 == o[0].0 && c[1].0 == o[1].0;
        if ARITY > 2 {
            eq = eq && c[ARITY - 1].0 == o[ARITY - 1].0;
        }
        eq
    }
}
impl PartialEq for KNode {
    fn eq(&self, o: &Self) -> bool {
        self.same_children(o.ch())
    }
}
impl Eq for KNode {}
impl Hash for KNode {
    fn hash<H: Hasher>(&self, s: &mut H) {
        let c = self.ch();
        c[0].hash(s);
        c[1].hash(s);
        if ARITY > 2 {
            c[ARITY - 1].hash(s);
        }
    }
}
impl DropWith<KEdge> for KNode {
    #[inline(always)]
    fn drop_with(self, drop_edge: impl Fn(KEdge)) {
        k_drop_children(self.children.into_inner(), drop_edge)
    }
}
impl InnerNode<KEdge> for KNode {
    const ARITY: usize = ARITY;
    type ChildrenIter<'a> = BorrowedEdgeIter<'a, KEdge, std::slice::Iter<'a, KEdge>>;
    #[inline(always)]
    fn new(level: LevelNo, children: impl IntoIterator<Item = KEdge>) -> Self {
        KNode {
            children: UnsafeCell::new(k_collect(children.into_iter())),
            level: Cell::new(level),
            g: Cell::new(G::default()),
            rc: Cell::new(2),
        }
    }
    #[inline(always)]
    fn check_level(&self, check: impl FnOnce(LevelNo) -> bool) -> bool {
        check(self.level.get())
    }
    #[inline(always)]
    fn assert_level_matches(&self, level: LevelNo) {
        assert!(self.level.get() == level, "C03: node level matches the level it is used at");
    }
    #[inline(always)]
    fn children(&self) -> Self::ChildrenIter<'_> {
        BorrowedEdgeIter::from(self.ch().iter())
    }
    #[inline(always)]
    fn child(&self, n: usize) -> Borrowed<'_, KEdge> {
        self.ch()[n].borrowed()
    }
    unsafe fn set_child(&self, n: usize, child: KEdge) -> KEdge {
        std::mem::replace(&mut unsafe { &mut *self.children.get() }[n], child)
    }
    #[inline(always)]
    fn ref_count(&self) -> usize {
        self.rc.get()
    }
}
unsafe impl HasLevel for KNode {
    #[inline(always)]
    fn level(&self) -> LevelNo {
        self.level.get()
    }
    #[inline(always)]
    unsafe fn set_level(&self, level: LevelNo) {
        self.level.set(level)
    }
}

// ---------------------------------------------------------------- NodeSet

#[derive(Clone, Default, PartialEq, Eq)]
pub struct KNodeSet(pub u32);
impl NodeSet<KEdge> for KNodeSet {
    fn len(&self) -> usize {
        self.0.count_ones() as usize
    }
    fn insert(&mut self, e: &KEdge) -> bool {
        let b = 1u32 << e.id();
        let r = self.0 & b == 0;
        self.0 |= b;
        r
    }
    fn contains(&self, e: &KEdge) -> bool {
        self.0 & (1u32 << e.id()) != 0
    }
    fn remove(&mut self, e: &KEdge) -> bool {
        let b = 1u32 << e.id();
        let r = self.0 & b != 0;
        self.0 &= !b;
        r
    }
}

// ---------------------------------------------------------------- Oracle apply cache

/// The induction hypothesis as an `ApplyCache` (DESIGN.md §1.2).
///
/// * mode `Step`: the first lookup (after `pre_hits` earlier ones) misses; every other lookup hits with an arbitrary existing
///   edge that satisfies the specification of the queried key; `add` asserts
///   that the stored value satisfies the specification of its key.
/// * mode `Miss`: never hits (whole-recursion harnesses); `add` still asserts.
pub struct KCache {
    pub always_miss: bool,
    pub top_rank: u32,
    /// top-most level of the operands of the top-level call
    pub top_level: LevelNo,
    pub top_done: Cell<bool>,
    /// Operators the harness expects as cache keys (concrete list). When non-empty, the
    /// specification is instantiated once per listed operator with a *concrete* operator
    /// (the operator value itself is symbolic data after enum merges, and evaluating the
    /// specification of every operator at every call is what made solving slow).
    pub allowed: [Option<KOp>; 14],
    /// number of lookups that are answered by the oracle before the one that misses
    pub pre_hits: Cell<u32>,
    /// if non-zero: only a lookup with exactly this many edge operands can be the one that
    /// misses (the operand count is concrete at every call site, unlike the operator). Used
    /// for operations whose terminal cases delegate to lower-ranked operations (ite -> and/or/
    /// imp/not): the delegated calls are then answered by the oracle instead of being unfolded.
    pub miss_arity: usize,
    pub gets: Cell<u32>,
    pub hits: Cell<u32>,
    pub adds: Cell<u32>,
}
impl KCache {
    pub fn step(top_rank: u32, top_level: LevelNo) -> Self {
        KCache {
            always_miss: false,
            top_rank,
            top_level,
            top_done: Cell::new(false),
            allowed: [None; 14],
            pre_hits: Cell::new(0),
            miss_arity: 0,
            gets: Cell::new(0),
            hits: Cell::new(0),
            adds: Cell::new(0),
        }
    }
    pub fn miss() -> Self {
        let mut c = Self::step(0, 0);
        c.always_miss = true;
        c
    }
}
impl DropWith<KEdge> for KCache {
    fn drop_with(self, _d: impl Fn(KEdge)) {}
}
impl<'id> KManager<'id> {
    /// top-most (minimal) level among the inner-node operands; `L` if all are terminals
    pub fn min_level(&self, ops: &[Borrowed<KEdge>]) -> LevelNo {
        let mut l = L as LevelNo;
        if ops.len() > 0 && !ops[0].is_terminal() {
            l = l.min(self.node(ops[0].slot()).level.get());
        }
        if ops.len() > 1 && !ops[1].is_terminal() {
            l = l.min(self.node(ops[1].slot()).level.get());
        }
        if ops.len() > 2 && !ops[2].is_terminal() {
            l = l.min(self.node(ops[2].slot()).level.get());
        }
        l
    }
}
impl KCache {
    /// NOTE: the list is stored inline; a `&'static [KOp]` field (in particular the dangling
    /// pointer of `&[]`) inside the manager made CBMC mis-model unrelated reads (probe dbgc1).
    pub fn set_allowed(&mut self, ops: &[KOp]) {
        macro_rules! put { ($i:expr) => { if $i < ops.len() { self.allowed[$i] = Some(ops[$i]); } } }
        put!(0); put!(1); put!(2); put!(3); put!(4); put!(5); put!(6); put!(7); put!(8); put!(9); put!(10); put!(11); put!(12); put!(13);
        assert!(ops.len() <= 14, "HARNESS: at most 14 expected operators");
    }
    /// `r` is a correct value for the key (op, ops, nums)
    #[inline(always)]
    fn sem_ok(&self, m: &KManager, op: KOp, ops: &[Borrowed<KEdge>], nums: &[u32], r: &KEdge) -> bool {
        let al = &self.allowed;
        if al[0].is_none() {
            return k_sem_ok(m, op, ops, nums, r);
        }
        let mut matched = false;
        let mut ok = false;
        macro_rules! alt { ($i:expr) => { if let Some(a) = al[$i] { if op == a { matched = true; ok = k_sem_ok(m, a, ops, nums, r); } } } }
        alt!(0); alt!(1); alt!(2); alt!(3); alt!(4); alt!(5); alt!(6); alt!(7); alt!(8); alt!(9); alt!(10); alt!(11); alt!(12); alt!(13);
        assert!(matched, "C06: the operator used as cache key is one that this operation may legitimately memoise under");
        ok
    }
}
impl<'id> ApplyCache<KManager<'id>, KOp> for KCache {
    fn get_extended<const E: usize, const NN: usize>(
        &self,
        m: &KManager<'id>,
        op: KOp,
        ops: (&[Borrowed<KEdge>], &[u32]),
    ) -> Option<([KEdge; E], [u32; NN])> {
        self.gets.set(self.gets.get() + 1);
        if self.always_miss {
            return None;
        }
        // NOTE: the hit/miss decision must stay *concrete* for the symbolic executor (the
        // operator is data-dependent after enum merges), hence a plain counter of lookups:
        // the first `pre_hits` lookups hit, the next one misses (top-level body), all later hit.
        if !self.top_done.get() && (self.miss_arity == 0 || ops.0.len() == self.miss_arity) {
            if self.pre_hits.get() == 0 {
                self.top_done.set(true);
                return None;
            }
            self.pre_hits.set(self.pre_hits.get() - 1);
        }
        let rank = k_rank(op);
        #[cfg(kani)]
        {
            assert!(E == 1 && NN == 0, "HARNESS: oracle cache only models single-edge values");
            // well-foundedness of the induction: the key is strictly smaller than the top-level call
            assert!(
                rank < self.top_rank || (rank == self.top_rank && m.min_level(ops.0) > self.top_level),
                "HARNESS: sub-call is smaller than the top-level call in the induction measure"
            );
            let r: u32 = kani::any();
            kani::assume((r & !TAG_BIT) < NT + m.len.get() as u32);
            kani::assume(K_TAGS || r & TAG_BIT == 0);
            let r = KEdge(r);
            kani::assume(k_canonical_edge(m, &r));
            kani::assume(self.sem_ok(m, op, ops.0, ops.1, &r));
            self.hits.set(self.hits.get() + 1);
            let r = m.clone_edge(&r);
            let raw = r.0;
            std::mem::forget(r);
            let mut it = std::iter::once(KEdge(raw));
            return Some((std::array::from_fn(|_| it.next().unwrap()), [0; NN]));
        }
        #[cfg(not(kani))]
        None
    }
    fn add_extended(
        &self,
        m: &KManager<'id>,
        op: KOp,
        ops: (&[Borrowed<KEdge>], &[u32]),
        v: (&[Borrowed<KEdge>], &[u32]),
    ) {
        self.adds.set(self.adds.get() + 1);
        assert!(v.0.len() == 1 && v.1.len() == 0, "HARNESS: oracle cache only models single-edge values");
        assert!(
            self.sem_ok(m, op, ops.0, ops.1, &v.0[0]),
            "C06: a result is memoised only under an operator/operand key that denotes it"
        );
    }
    fn clear(&self, _m: &KManager<'id>) {}
}

// ---------------------------------------------------------------- Manager

pub struct KManager<'id> {
    _p: PhantomData<fn(&'id ()) -> &'id ()>,
    pub slots: [UnsafeCell<KNode>; N],
    pub len: Cell<usize>,
    /// number of nodes in the symbolic pre-state (ghost)
    pub init_c: Cell<usize>,
    /// node capacity: `get_or_insert` of a new node fails once `len == cap`
    pub cap_c: Cell<usize>,
    /// ghost reference counting: watched node/terminal id and net reference change
    pub watch: u32,
    pub wrc: Cell<i32>,
    /// number of nodes created since the harness started
    pub created: Cell<u32>,
    pub oom: Cell<bool>,
    pub var2level: [LevelNo; L],
    pub level2var: [VarNo; L],
    pub cache: KCache,
    pub x: KExtra,
    pub pool: KPool,
}

impl<'id> KManager<'id> {
    /// Node slot `i`. The slot is selected by a chain of comparisons against *concrete*
    /// indices instead of `&self.slots[i]` with a symbolic index: pointers into a struct array
    /// with a symbolic offset are what CBMC mis-models in some data layouts (see KNode).
    #[inline(always)]
    pub fn node(&self, i: usize) -> &KNode {
        let p: &UnsafeCell<KNode> = match i {
            0 => &self.slots[0],
            1 => &self.slots[1 % N],
            2 => &self.slots[2 % N],
            3 => &self.slots[3 % N],
            4 => &self.slots[4 % N],
            5 => &self.slots[5 % N],
            6 => {
                assert!(N > 6, "index out of bounds: node slot");
                &self.slots[6 % N]
            }
            _ => {
                assert!(i == 7 && N > 7, "index out of bounds: node slot");
                &self.slots[7 % N]
            }
        };
        unsafe { &*p.get() }
    }
    /// ghost semantics of an edge
    #[inline(always)]
    pub fn g(&self, e: &KEdge) -> G {
        let id = e.id();
        let base = if id < NT { g_terminal(self, id) } else { self.node((id - NT) as usize).g.get() };
        g_tagged(base, e.tagged())
    }
    #[inline(always)]
    fn track(&self, id: u32, d: i32) {
        if id == self.watch {
            self.wrc.set(self.wrc.get() + d);
        }
    }
    /// level of an edge's node (`L` for terminals)
    #[inline(always)]
    pub fn level_of(&self, e: &KEdge) -> LevelNo {
        if e.is_terminal() { L as LevelNo } else { self.node(e.slot()).level.get() }
    }

    /// Structural well-formedness of node `i`: in range, ordered, reduced, unique.
    pub fn wf_node(&self, i: usize) -> bool {
        let len = self.len.get();
        if i >= len {
            return true;
        }
        let n = self.node(i);
        let l = n.level.get();
        if l as usize >= L {
            return false;
        }
        let ch = n.ch();
        macro_rules! child_ok { ($k:expr) => {{
            let c = &ch[$k];
            if !K_TAGS && c.tagged() { return false; }
            let id = c.id() as usize;
            if id >= NTERM {
                if id - NTERM >= len || self.node(id - NTERM).level.get() <= l { return false; }
            } else if !k_terminal_in_use(self, id as u32) {
                return false;
            }
        }} }
        child_ok!(0);
        child_ok!(1);
        if ARITY > 2 {
            child_ok!(ARITY - 1);
        }
        if !k_reduced(self, l, ch) {
            return false;
        }
        for_slots!(J => {
            if J < i {
                let o = self.node(J);
                if o.level.get() == l && o.same_children(ch) { return false; }
            }
        });
        true
    }
    pub fn wf(&self) -> bool {
        let mut ok = self.len.get() <= N && k_extra_wf(self);
        for_slots!(I => { ok = ok && self.wf_node(I); });
        ok
    }
    /// (re)compute the ghost semantics of slots `< upto`, bottom-up by level
    pub fn compute_ghost(&self, upto: usize) {
        for_levels_rev!(LV => {
            for_slots!(I => {
                if I < upto {
                    let n = self.node(I);
                    if n.level.get() as usize == LV {
                        n.g.set(g_node(self, LV as LevelNo, n.ch()));
                    }
                }
            });
        });
    }
    /// ghost semantics are consistent with the structure (asserted after operations)
    pub fn ghost_ok(&self) -> bool {
        let mut ok = true;
        for_slots!(I => {
            if I < self.len.get() {
                let n = self.node(I);
                ok = ok && n.g.get() == g_node(self, n.level.get(), n.ch());
            }
        });
        ok
    }
    /// Number of references to the watched node held by nodes created since the
    /// pre-state (stored parent edges count as references)
    pub fn new_parent_refs(&self) -> i32 {
        let mut c = 0;
        for_slots!(I => {
            if I >= self.init_c.get() && I < self.len.get() {
                let ch = self.node(I).ch();
                if ch[0].id() == self.watch { c += 1; }
                if ch[1].id() == self.watch { c += 1; }
                if ARITY > 2 && ch[ARITY - 1].id() == self.watch { c += 1; }
            }
        });
        c
    }
    /// Canonicity lemma (C01a): distinct nodes denote distinct functions, none of
    /// them a terminal's function (kind-specific equivalence through `k_same_fn`).
    /// Proven for every well-formed diagram by the `lemma_canonical` harness and
    /// *assumed* by the step harnesses (assume-guarantee) to shorten solving.
    pub fn ghost_distinct(&self, upto: usize) -> bool {
        let mut ok = true;
        for_slots!(I => {
            if I < upto && I < self.len.get() {
                let gi = self.node(I).g.get();
                ok = ok && !k_is_terminal_fn(self, gi);
                for_slots!(J => {
                    if J < I { ok = ok && !k_same_fn(gi, self.node(J).g.get()); }
                });
            }
        });
        ok
    }
    /// var/level maps are mutually inverse permutations
    pub fn order_ok(&self) -> bool {
        let mut ok = true;
        macro_rules! chk { ($v:expr) => { if $v < L {
            let l = self.var2level[$v] as usize;
            ok = ok && l < L && self.level2var[l] as usize == $v;
        } } }
        chk!(0); chk!(1); chk!(2); chk!(3);
        ok
    }
}

pub struct KLevelView<'a, 'id> {
    pub m: &'a KManager<'id>,
    pub level: LevelNo,
}

pub struct KLevelIter<'a, 'id> {
    m: &'a KManager<'id>,
    front: LevelNo,
    back: LevelNo,
}
impl<'a, 'id> Iterator for KLevelIter<'a, 'id> {
    type Item = KLevelView<'a, 'id>;
    fn next(&mut self) -> Option<Self::Item> {
        if self.front < self.back {
            let l = self.front;
            self.front += 1;
            Some(KLevelView { m: self.m, level: l })
        } else {
            None
        }
    }
    fn size_hint(&self) -> (usize, Option<usize>) {
        let n = (self.back - self.front) as usize;
        (n, Some(n))
    }
}
impl<'a, 'id> DoubleEndedIterator for KLevelIter<'a, 'id> {
    fn next_back(&mut self) -> Option<Self::Item> {
        if self.front < self.back {
            self.back -= 1;
            Some(KLevelView { m: self.m, level: self.back })
        } else {
            None
        }
    }
}
impl<'a, 'id> ExactSizeIterator for KLevelIter<'a, 'id> {}

pub struct KLevelEdgeIter<'a>(PhantomData<&'a KEdge>);
impl<'a> Iterator for KLevelEdgeIter<'a> {
    type Item = &'a KEdge;
    fn next(&mut self) -> Option<&'a KEdge> {
        unimplemented!()
    }
}

unsafe impl<'a, 'id> LevelView<KEdge, KNode> for KLevelView<'a, 'id> {
    type Iterator<'b>
        = KLevelEdgeIter<'b>
    where
        Self: 'b;
    type Taken = Self;
    fn len(&self) -> usize {
        let mut c = 0;
        for_slots!(I => {
            if I < self.m.len.get() && self.m.node(I).level.get() == self.level { c += 1; }
        });
        c
    }
    fn level_no(&self) -> LevelNo {
        self.level
    }
    fn reserve(&mut self, _a: usize) {}
    fn get(&self, _node: &KNode) -> Option<&KEdge> {
        unimplemented!()
    }
    fn insert(&mut self, _e: KEdge) -> bool {
        unimplemented!()
    }
    unsafe fn insert_unchecked(&mut self, _e: KEdge) -> bool {
        unimplemented!()
    }
    /// Contract of `Store::add_node` / `LevelViewSet::get_or_insert`: returns the
    /// unique node with these children at this level, creating it if there is
    /// room; on failure (and on a hit) the passed node's children are dropped.
    fn get_or_insert(&mut self, node: KNode) -> AllocResult<KEdge> {
        let m = self.m;
        assert!(node.level.get() == self.level, "C03: a node is inserted into the level it reports");
        assert!((self.level as usize) < L, "C03: insertion level exists");
        {
            let ch = node.ch();
            let mut below = m.level_of(&ch[0]) > self.level && m.level_of(&ch[1]) > self.level;
            if ARITY > 2 {
                below = below && m.level_of(&ch[ARITY - 1]) > self.level;
            }
            assert!(below, "C03: children of an inserted node are on strictly lower levels");
            assert!(k_reduced(m, self.level, ch), "C03,C01: inserted node violates none of the kind's reduction rules");
        }
        let len = m.len.get();
        let mut found = N;
        for_slots!(I => {
            if I < len {
                let n = m.node(I);
                if n.level.get() == self.level && n.same_children(node.ch()) { found = I; }
            }
        });
        if found < N {
            node.drop_with(|e| m.drop_edge(e));
            let id = (found + NTERM) as u32;
            m.track(id, 1);
            return Ok(KEdge(id));
        }
        if len >= m.cap_c.get() {
            m.oom.set(true);
            node.drop_with(|e| m.drop_edge(e));
            return Err(OutOfMemory);
        }
        node.g.set(g_node(m, self.level, node.ch()));
        unsafe { std::ptr::write(m.slots[len].get(), node) };
        m.len.set(len + 1);
        m.created.set(m.created.get() + 1);
        let id = (len + NTERM) as u32;
        m.track(id, 1);
        Ok(KEdge(id))
    }
    unsafe fn get_or_insert_unchecked(&mut self, node: KNode) -> AllocResult<KEdge> {
        self.get_or_insert(node)
    }
    fn gc(&mut self) {}
    fn remove(&mut self, _n: &KNode) -> bool {
        false
    }
    unsafe fn swap(&mut self, _o: &mut Self) {
        unimplemented!()
    }
    fn iter(&self) -> Self::Iterator<'_> {
        unimplemented!()
    }
    fn take(&mut self) -> Option<Self> {
        None
    }
}

unsafe impl<'id> Manager for KManager<'id> {
    type Edge = KEdge;
    type EdgeTag = KTag;
    type InnerNode = KNode;
    type Terminal = KTerminal;
    type TerminalRef<'a>
        = KTermRef<'a>
    where
        Self: 'a;
    type Rules = KRules;
    type TerminalIterator<'a>
        = std::iter::Empty<KEdge>
    where
        Self: 'a;
    type NodeSet = KNodeSet;
    type LevelView<'a>
        = KLevelView<'a, 'id>
    where
        Self: 'a;
    type LevelIterator<'a>
        = KLevelIter<'a, 'id>
    where
        Self: 'a;

    #[inline(always)]
    fn get_node(&self, e: &KEdge) -> Node<'_, Self> {
        let id = e.id();
        if id >= NT {
            Node::Inner(self.node((id - NT) as usize))
        } else {
            Node::Terminal(k_terminal_ref(self, id))
        }
    }
    #[inline(always)]
    fn clone_edge(&self, e: &KEdge) -> KEdge {
        self.track(e.id(), 1);
        KEdge(e.0)
    }
    #[inline(always)]
    fn drop_edge(&self, e: KEdge) {
        self.track(e.id(), -1);
    }
    fn try_remove_node(&self, e: KEdge, _l: LevelNo) -> bool {
        self.drop_edge(e);
        false
    }
    fn num_inner_nodes(&self) -> usize {
        self.len.get()
    }
    fn num_levels(&self) -> LevelNo {
        L as LevelNo
    }
    fn num_named_vars(&self) -> VarNo {
        0
    }
    fn add_vars(&mut self, _a: VarNo) -> Range<VarNo> {
        unimplemented!()
    }
    fn add_named_vars<S: Into<String>>(
        &mut self,
        _n: impl IntoIterator<Item = S>,
    ) -> Result<Range<VarNo>, DuplicateVarName> {
        unimplemented!()
    }
    fn add_named_vars_from_map(
        &mut self,
        _map: oxidd_core::util::VarNameMap,
    ) -> Result<Range<VarNo>, DuplicateVarName> {
        unimplemented!()
    }
    fn var_name(&self, _v: VarNo) -> &str {
        ""
    }
    fn set_var_name(&mut self, _v: VarNo, _n: impl Into<String>) -> Result<(), DuplicateVarName> {
        unimplemented!()
    }
    fn name_to_var(&self, _n: impl AsRef<str>) -> Option<VarNo> {
        None
    }
    #[inline(always)]
    fn var_to_level(&self, v: VarNo) -> LevelNo {
        assert!((v as usize) < L, "HARNESS: variable number in range");
        self.var2level[v as usize]
    }
    #[inline(always)]
    fn level_to_var(&self, l: LevelNo) -> VarNo {
        assert!((l as usize) < L, "HARNESS: level number in range");
        self.level2var[l as usize]
    }
    #[inline(always)]
    fn level(&self, no: LevelNo) -> KLevelView<'_, 'id> {
        assert!((no as usize) < L, "C03: level number in range");
        KLevelView { m: self, level: no }
    }
    unsafe fn level_unchecked(&self, no: LevelNo) -> KLevelView<'_, 'id> {
        KLevelView { m: self, level: no }
    }
    fn levels(&self) -> KLevelIter<'_, 'id> {
        KLevelIter { m: self, front: 0, back: L as LevelNo }
    }
    #[inline(always)]
    fn get_terminal(&self, t: KTerminal) -> AllocResult<KEdge> {
        let id = k_get_terminal(self, t)?;
        self.track(id, 1);
        Ok(KEdge(id))
    }
    fn num_terminals(&self) -> usize {
        NTERM
    }
    fn terminals(&self) -> Self::TerminalIterator<'_> {
        std::iter::empty()
    }
    fn gc(&self) -> usize {
        0
    }
    fn reorder<TT>(&mut self, f: impl FnOnce(&mut Self) -> TT) -> TT {
        f(self)
    }
    fn gc_count(&self) -> u64 {
        0
    }
    fn reorder_count(&self) -> u64 {
        0
    }
}

impl<'id> HasApplyCache<KManager<'id>, KOp> for KManager<'id> {
    type ApplyCache = KCache;
    #[inline(always)]
    fn apply_cache(&self) -> &KCache {
        &self.cache
    }
    fn apply_cache_mut(&mut self) -> &mut KCache {
        &mut self.cache
    }
}

// ---------------------------------------------------------------- worker pool (C07, narrow)

/// Stub `WorkerPool`: `join(a, b)` runs the two closures sequentially in an *arbitrary* order
/// (chosen by the solver per call), `split_depth` is an arbitrary small number. Real threads
/// do not exist under Kani; what is decided is that the result of the multi-threaded apply
/// algorithms does not depend on the serialisation order of forked sub-problems and that a
/// failing branch does not leak the sibling's result.
pub struct KPool {
    pub depth: u32,
}
unsafe impl Sync for KPool {}
unsafe impl<'id> Sync for KManager<'id> {}
impl oxidd_core::WorkerPool for KPool {
    fn current_num_threads(&self) -> usize {
        2
    }
    fn split_depth(&self) -> u32 {
        self.depth
    }
    fn set_split_depth(&self, _depth: Option<u32>) {}
    fn install<R: Send>(&self, op: impl FnOnce() -> R + Send) -> R {
        op()
    }
    fn join<RA: Send, RB: Send>(&self, op_a: impl FnOnce() -> RA + Send, op_b: impl FnOnce() -> RB + Send) -> (RA, RB) {
        #[cfg(kani)]
        let a_first: bool = kani::any();
        #[cfg(not(kani))]
        let a_first = true;
        if a_first {
            let a = op_a();
            let b = op_b();
            (a, b)
        } else {
            let b = op_b();
            let a = op_a();
            (a, b)
        }
    }
    fn broadcast<R: Send>(&self, _op: impl Fn(oxidd_core::BroadcastContext) -> R + Sync) -> Vec<R> {
        unimplemented!()
    }
}
impl<'id> oxidd_core::HasWorkers for KManager<'id> {
    type WorkerPool = KPool;
    fn workers(&self) -> &KPool {
        &self.pool
    }
}

// ---------------------------------------------------------------- Function plumbing (type level only)

#[derive(Clone, PartialEq, Eq, Hash)]
pub struct KRef;
impl<'a, 'id> From<&'a KManager<'id>> for KRef {
    fn from(_: &'a KManager<'id>) -> Self {
        KRef
    }
}
impl ManagerRef for KRef {
    type Manager<'id> = KManager<'id>;
    fn with_manager_shared<F, TT>(&self, _f: F) -> TT
    where
        F: for<'id> FnOnce(&KManager<'id>) -> TT,
    {
        unimplemented!()
    }
    fn with_manager_exclusive<F, TT>(&self, _f: F) -> TT
    where
        F: for<'id> FnOnce(&mut KManager<'id>) -> TT,
    {
        unimplemented!()
    }
}
#[derive(Clone, PartialEq, Eq, PartialOrd, Ord, Hash)]
pub struct KFunc(pub u32);
unsafe impl Function for KFunc {
    const REPR_ID: &str = "K";
    type Manager<'id> = KManager<'id>;
    type ManagerRef = KRef;
    fn from_edge<'id>(_m: &Self::Manager<'id>, e: EdgeOfFunc<'id, Self>) -> Self {
        KFunc(e.0)
    }
    fn as_edge<'id>(&self, _m: &Self::Manager<'id>) -> &EdgeOfFunc<'id, Self> {
        unimplemented!()
    }
    fn into_edge<'id>(self, _m: &Self::Manager<'id>) -> EdgeOfFunc<'id, Self> {
        KEdge(self.0)
    }
    fn manager_ref(&self) -> KRef {
        KRef
    }
    fn with_manager_shared<F, TT>(&self, _f: F) -> TT
    where
        F: for<'id> FnOnce(&KManager<'id>, &KEdge) -> TT,
    {
        unimplemented!()
    }
    fn with_manager_exclusive<F, TT>(&self, _f: F) -> TT
    where
        F: for<'id> FnOnce(&mut KManager<'id>, &KEdge) -> TT,
    {
        unimplemented!()
    }
}

// ---------------------------------------------------------------- symbolic construction (Kani only)

/// An empty manager (no inner nodes) as a struct literal.
///
/// CBMC pitfall (probes dbg5 / dbg31): if the manager is *moved* (returned by value or
/// wrapped into another struct) between its creation and the moment its node slots are
/// filled through the `UnsafeCell`s, later reads of a node's first child through a
/// reference are mis-modelled (spurious counterexamples). The manager must therefore be
/// created by this macro in the very function that fills it; moving it afterwards is fine.
#[cfg(kani)]
macro_rules! k_new_manager {
    ($cap:expr, $cache:expr, $x:expr, $order:expr) => {{
        let order: ([LevelNo; L], [VarNo; L]) = $order;
        KManager {
            _p: PhantomData,
            slots: k_slots(sym::blank_node),
            len: Cell::new(0),
            init_c: Cell::new(0),
            cap_c: Cell::new($cap),
            watch: kani::any(),
            wrc: Cell::new(0),
            created: Cell::new(0),
            oom: Cell::new(false),
            var2level: order.0,
            level2var: order.1,
            cache: $cache,
            x: $x,
            pool: KPool { depth: 1 },
        }
    }};
}

#[cfg(kani)]
pub mod sym {
    use super::*;

    fn blank() -> UnsafeCell<KNode> {
        UnsafeCell::new(KNode {
            children: UnsafeCell::new(k_collect(std::iter::empty())),
            level: Cell::new(0),
            g: Cell::new(G::default()),
            rc: Cell::new(2),
        })
    }

    /// identity variable order
    pub fn id_order() -> ([LevelNo; L], [VarNo; L]) {
        let mut a = [0; L];
        let mut b = [0; L];
        if L > 0 { a[0] = 0; b[0] = 0; }
        if L > 1 { a[1] = 1; b[1] = 1; }
        if L > 2 { a[2] = 2; b[2] = 2; }
        if L > 3 { a[L - 1] = (L - 1) as u32; b[L - 1] = (L - 1) as u32; }
        (a, b)
    }
    /// arbitrary variable order (a pair of mutually inverse permutations)
    pub fn any_order() -> ([LevelNo; L], [VarNo; L]) {
        let mut a: [LevelNo; L] = [0; L];
        let mut b: [VarNo; L] = [0; L];
        macro_rules! fill { ($v:expr) => { if $v < L { a[$v] = kani::any(); b[$v] = kani::any(); } } }
        fill!(0); fill!(1); fill!(2); fill!(3);
        macro_rules! chk { ($v:expr) => { if $v < L {
            kani::assume((a[$v] as usize) < L);
            kani::assume(b[a[$v] as usize] as usize == $v);
        } } }
        chk!(0); chk!(1); chk!(2); chk!(3);
        (a, b)
    }

    pub fn blank_node() -> UnsafeCell<KNode> {
        blank()
    }
    /// Turn `m` (which holds `base` concrete nodes, e.g. a ZBDD tautology chain built
    /// by the real code) into an arbitrary well-formed diagram with `init` further,
    /// fully symbolic nodes (`init <= max_init`, `max_init` concrete).
    pub fn havoc(m: &KManager<'static>, base: usize, init: usize, max_init: usize, cap: usize, use_lemma: bool) {
        m.len.set(base + init);
        m.init_c.set(base + init);
        m.cap_c.set(cap);
        m.wrc.set(0);
        m.created.set(0);
        m.oom.set(false);
        for_slots!(I => {
            if I >= base && I < base + max_init && I < base + init {
                let rc: usize = kani::any();
                kani::assume(rc >= 1);
                // whole-node write (field-wise writes through the UnsafeCell after the manager has
                // been moved once are mis-modelled by CBMC: probe dbg19)
                let node = KNode {
                    children: UnsafeCell::new(k_collect((0..ARITY).map(|_| KEdge(kani::any())))),
                    level: Cell::new(kani::any()),
                    g: Cell::new(G::default()),
                    rc: Cell::new(rc),
                };
                unsafe { std::ptr::write(m.slots[I].get(), node) };
            }
        });
        kani::assume(m.wf());
        kani::assume((m.watch as usize) < NTERM + N);
        m.compute_ghost(base + init);
        if use_lemma {
            kani::assume(m.ghost_distinct((base + max_init).min(N)));
        }
    }

    /// An arbitrary well-formed diagram with exactly `init` nodes (`init` is a
    /// concrete or symbolic number <= `max_init`), node capacity `cap`.
    pub fn any_manager(init: usize, max_init: usize, cap: usize, cache: KCache, x: KExtra,
                       order: ([LevelNo; L], [VarNo; L])) -> KManager<'static> {
        any_manager_opt(init, max_init, cap, cache, x, order, true)
    }
    pub fn any_manager_opt(init: usize, max_init: usize, cap: usize, cache: KCache, x: KExtra,
                       order: ([LevelNo; L], [VarNo; L]), use_lemma: bool) -> KManager<'static> {
        let m: KManager<'static> = k_new_manager!(cap, cache, x, order);
        havoc(&m, 0, init, max_init, cap, use_lemma);
        m
    }

    /// an arbitrary edge into the first `init` nodes / the terminals
    pub fn any_edge(m: &KManager, init: usize) -> KEdge {
        let r: u32 = kani::any();
        kani::assume(((r & !TAG_BIT) as usize) < NTERM + init);
        kani::assume(K_TAGS || r & TAG_BIT == 0);
        let e = KEdge(r);
        kani::assume(k_canonical_edge(m, &e));
        e
    }
}
