// Step / base harness scaffolding shared by the Boolean kinds (BDD, BCDD, ZBDD).
// The including module defines `type B = <function type over KFunc>` first.

use oxidd_core::function::{BooleanFunction, BooleanOperator};

/// number of nodes in the symbolic pre-state (concrete upper bound, symbolic actual number)
pub const INIT: usize = N - 1;

/// NOTE: the manager must be returned *bare*: wrapping it into another struct
/// and returning that by value makes CBMC lose the `assume(wf)` facts (probe dbg5).
pub type Setup = KManager<'static>;

/// arbitrary well-formed diagram with `init <= max_init` nodes, arbitrary node
/// capacity `cap` in `init ..= N` (every allocation can be the failing one)
pub fn setup_n(top_rank: u32, max_init: usize, allowed: &'static [KOp]) -> Setup {
    let init: usize = kani::any();
    kani::assume(init <= max_init);
    let cap: usize = kani::any();
    kani::assume(cap >= init && cap <= N);
    let mut cache = KCache::step(top_rank, 0);
    cache.set_allowed(allowed);
    sym::any_manager(init, max_init, cap, cache, k_extra_none(), sym::id_order())
}
/// same, arbitrary variable order (for operations that translate variables to levels)
pub fn setup_order(top_rank: u32, max_init: usize, allowed: &'static [KOp]) -> Setup {
    let init: usize = kani::any();
    kani::assume(init <= max_init);
    let cap: usize = kani::any();
    kani::assume(cap >= init && cap <= N);
    let mut cache = KCache::step(top_rank, 0);
    cache.set_allowed(allowed);
    sym::any_manager(init, max_init, cap, cache, k_extra_none(), sym::any_order())
}

/// Post-conditions common to every operation (success or out-of-memory)
pub fn post_struct(s: &Setup, r: &AllocResult<KEdge>) {
    let m = s;
    assert!(m.wf(), "C01,C03: diagram stays ordered, reduced and duplicate-free");
    assert!(m.ghost_ok(), "C03: pre-existing nodes are unchanged (semantics of every node preserved)");
    match r {
        Ok(e) => {
            assert!(k_canonical_edge(m, e) && (e.id() as usize) < NTERM + m.len.get(), "C01: result is a valid canonical edge");
            // exact reference counting: +1 on the result, edges stored in new nodes, 0 everywhere else
            let exp = if e.id() == m.watch { 1 } else { 0 } + m.new_parent_refs();
            assert!(m.wrc.get() == exp, "C05: net reference change = +1 for the returned handle + edges stored in newly created nodes, 0 on every other node");
        }
        Err(_) => {
            assert!(m.oom.get(), "C14: out-of-memory is only reported when an allocation actually failed");
            assert!(m.wrc.get() == m.new_parent_refs(), "C14,C05: a failed operation releases every reference it acquired");
        }
    }
}
pub fn post(s: &Setup, r: &AllocResult<KEdge>, want: G) {
    post_struct(s, r);
    if let Ok(e) = r {
        assert!(s.g(e) == want, "C02: result denotes the specified function");
    }
}
/// same for the operations of C04
pub fn post_q(s: &Setup, r: &AllocResult<KEdge>, want: G) {
    post_struct(s, r);
    if let Ok(e) = r {
        assert!(s.g(e) == want, "C04: result denotes the specified function");
    }
}

pub fn covers(s: &Setup, r: &AllocResult<KEdge>) {
    kani::cover!(s.cache.adds.get() > 0 && r.is_ok(), "non-terminal path with cache insertion");
    kani::cover!(s.cache.hits.get() >= 2, "oracle consulted at least twice");
    kani::cover!(s.created.get() > 0, "node created");
    kani::cover!(r.is_err(), "out-of-memory path");
}

macro_rules! step_bin {
    ($name:ident, $f:ident, $mi:expr, $spec:expr) => {
        #[kani::proof]
        #[kani::unwind(3)]
        fn $name() {
            let mut s = setup_n(RANK_BIN, $mi, AL_BIN);
            let f = sym::any_edge(&s, s.init_c.get());
            let g = sym::any_edge(&s, s.init_c.get());
            s.cache.top_level = s.min_level(&[f.borrowed(), g.borrowed()]);
            let spec: fn(G, G) -> G = $spec;
            let want = spec(s.g(&f), s.g(&g));
            let r = B::$f(&s, &f, &g);
            post(&s, &r, want);
            covers(&s, &r);
        }
    };
}
macro_rules! step_bin_all {
    ($mi:expr, $($name:ident, $f:ident, $spec:expr);* $(;)?) => { $( step_bin!($name, $f, $mi, $spec); )* };
}
macro_rules! step_not {
    ($name:ident, $mi:expr) => {
        #[kani::proof]
        #[kani::unwind(3)]
        fn $name() {
            let mut s = setup_n(RANK_NOT, $mi, AL_NOT);
            let f = sym::any_edge(&s, s.init_c.get());
            s.cache.top_level = s.min_level(&[f.borrowed()]);
            let want = !s.g(&f);
            let r = B::not_edge(&s, &f);
            post(&s, &r, want);
            kani::cover!(r.is_ok(), "success path");
        }
    };
}
macro_rules! step_ite {
    ($name:ident, $mi:expr) => {
        #[kani::proof]
        #[kani::unwind(3)]
        fn $name() {
            let mut s = setup_n(RANK_ITE, $mi, AL_ITE);
            s.cache.miss_arity = 3;
            let f = sym::any_edge(&s, s.init_c.get());
            let g = sym::any_edge(&s, s.init_c.get());
            let h = sym::any_edge(&s, s.init_c.get());
            s.cache.top_level = s.min_level(&[f.borrowed(), g.borrowed(), h.borrowed()]);
            let (a, b, c) = (s.g(&f), s.g(&g), s.g(&h));
            let r = B::ite_edge(&s, &f, &g, &h);
            post(&s, &r, (a & b) | (!a & c));
            covers(&s, &r);
        }
    };
}
macro_rules! step_restrict {
    // `$lits`: maximal number of literals in the cube; the cube walk (`inner`) recurses once per
    // literal, so the unwinding bound is `$lits + 2`
    ($name:ident, $mi:expr, $lits:expr, $unwind:expr) => {
        #[kani::proof]
        #[kani::unwind($unwind)]
        fn $name() {
            let mut s = setup_n(RANK_RESTRICT, $mi, AL_RESTRICT);
            let f = sym::any_edge(&s, s.init_c.get());
            let v = sym::any_edge(&s, s.init_c.get());
            kani::assume(is_cube(s.g(&v)) && s.g(&v) != 0 && support_size(s.g(&v)) <= $lits);
            s.cache.top_level = s.min_level(&[f.borrowed()]);
            let want = restrict_tt(s.g(&f), s.g(&v));
            let r = B::restrict_edge(&s, &f, &v);
            post_q(&s, &r, want);
            covers(&s, &r);
            kani::cover!(support_size(s.g(&v)) == $lits && r.is_ok(), "cube with the maximal number of literals");
        }
    };
}
macro_rules! step_quant {
    ($name:ident, $f:ident, $q:expr, $mi:expr) => {
        #[kani::proof]
        #[kani::unwind(6)]
        fn $name() {
            use oxidd_core::function::BooleanFunctionQuant;
            let mut s = setup_n(RANK_QUANT, $mi, al_quant($q));
            let f = sym::any_edge(&s, s.init_c.get());
            let v = sym::any_edge(&s, s.init_c.get());
            kani::assume(is_pos_cube(s.g(&v)) && s.g(&v) != 0);
            s.cache.top_level = s.min_level(&[f.borrowed()]);
            let want = quant_tt($q, s.g(&f), s.g(&v));
            let r = B::$f(&s, &f, &v);
            post_q(&s, &r, want);
            covers(&s, &r);
        }
    };
}
macro_rules! step_apply_quant {
    ($name:ident, $f:ident, $q:expr, $bop:expr, $mi:expr, $spec:expr) => {
        #[kani::proof]
        #[kani::unwind(6)]
        fn $name() {
            use oxidd_core::function::BooleanFunctionQuant;
            let mut s = setup_n(RANK_APPLY_QUANT, $mi, al_apply_quant($q, $bop));
            // only the lookup with three operands (f, g, vars) is the top-level one; the
            // delegated not / quantification / apply calls are answered by the oracle
            s.cache.miss_arity = 3;
            let f = sym::any_edge(&s, s.init_c.get());
            let g = sym::any_edge(&s, s.init_c.get());
            let v = sym::any_edge(&s, s.init_c.get());
            kani::assume(is_pos_cube(s.g(&v)) && s.g(&v) != 0);
            s.cache.top_level = s.min_level(&[f.borrowed(), g.borrowed()]);
            let spec: fn(G, G) -> G = $spec;
            let want = quant_tt($q, spec(s.g(&f), s.g(&g)), s.g(&v));
            let r = B::$f(&s, $bop, &f, &g, &v);
            post_q(&s, &r, want);
            covers(&s, &r);
        }
    };
}
/// all 8 inner operators for one quantifier
macro_rules! step_apply_quant_8 {
    ($f:ident, $q:expr, $mi:expr, $n_and:ident, $n_or:ident, $n_nand:ident, $n_nor:ident, $n_xor:ident, $n_equiv:ident, $n_imp:ident, $n_imps:ident) => {
        step_apply_quant!($n_and, $f, $q, BooleanOperator::And, $mi, |a, b| a & b);
        step_apply_quant!($n_or, $f, $q, BooleanOperator::Or, $mi, |a, b| a | b);
        step_apply_quant!($n_nand, $f, $q, BooleanOperator::Nand, $mi, |a, b| !(a & b));
        step_apply_quant!($n_nor, $f, $q, BooleanOperator::Nor, $mi, |a, b| !(a | b));
        step_apply_quant!($n_xor, $f, $q, BooleanOperator::Xor, $mi, |a, b| a ^ b);
        step_apply_quant!($n_equiv, $f, $q, BooleanOperator::Equiv, $mi, |a, b| !(a ^ b));
        step_apply_quant!($n_imp, $f, $q, BooleanOperator::Imp, $mi, |a, b| !a | b);
        step_apply_quant!($n_imps, $f, $q, BooleanOperator::ImpStrict, $mi, |a, b| !a & b);
    };
}

/// C01(a): canonicity lemma
macro_rules! lemma_canonical {
    ($name:ident) => {
        #[kani::proof]
        #[kani::unwind(3)]
        fn $name() {
            let init: usize = kani::any();
            kani::assume(init <= INIT);
            let m = sym::any_manager_opt(init, INIT, N, KCache::miss(), k_extra_none(), sym::id_order(), false);
            assert!(m.ghost_distinct(init), "C01: reduced + ordered + unique implies distinct nodes denote distinct non-constant functions");
            let e1 = sym::any_edge(&m, init);
            let e2 = sym::any_edge(&m, init);
            assert!((m.g(&e1) == m.g(&e2)) == (e1 == e2), "C01: handles compare equal iff they denote the same function");
            assert!((e1 == e2) == (e1.cmp(&e2) == std::cmp::Ordering::Equal), "C01: edge ordering is consistent with equality");
            kani::cover!(init == INIT && e1 != e2, "full diagram, distinct edges");
        }
    };
}

// ---------------------------------------------------------------- substitution (C04)
pub struct KSubst {
    pub id: u32,
    pub n: usize,
    pub vars: [VarNo; 2],
    pub repl: [u32; 2],
}
impl<'a> oxidd_core::util::Substitution for &'a KSubst {
    type Replacement = Borrowed<'a, KEdge>;
    fn id(&self) -> u32 {
        self.id
    }
    fn pairs(&self) -> impl ExactSizeIterator<Item = (VarNo, Self::Replacement)> {
        let s: &'a KSubst = *self;
        (0..s.n).map(move |i| (s.vars[i], Borrowed::new(KEdge(s.repl[i]))))
    }
}
macro_rules! step_substitute {
    // `$v0`, `$v1`: concrete variables to replace (identity order), `$n` of them are used. The
    // variable numbers are concrete so that the vectors built by substitute_prepare have a
    // concrete length (a symbolic `Vec::with_capacity` argument exhausts the solver's memory).
    ($name:ident, $mi:expr, $n:expr, $v0:expr, $v1:expr) => {
        #[kani::proof]
        #[kani::unwind(6)]
        fn $name() {
            use oxidd_core::function::FunctionSubst;
            let mut s = setup_n(RANK_SUBST, $mi, AL_SUBST);
            let f = sym::any_edge(&s, s.init_c.get());
            let r0 = sym::any_edge(&s, s.init_c.get());
            let r1 = sym::any_edge(&s, s.init_c.get());
            let sub = KSubst { id: kani::any(), n: $n, vars: [$v0, $v1], repl: [r0.0, r1.0] };
            let l0: usize = $v0;
            let l1: usize = if $n > 1 { $v1 } else { l0 };
            let len = if l0 > l1 { l0 + 1 } else { l1 + 1 };
            let mut sg: [G; L] = MASK;
            sg[l0] = s.g(&r0);
            if $n > 1 {
                sg[l1] = s.g(&r1);
            }
            s.x.subst_len = len;
            s.x.subst_g = sg;
            s.x.subst_id = sub.id;
            s.cache.top_level = s.min_level(&[f.borrowed()]);
            let want = subst_tt(s.g(&f), &sg, len);
            let r = B::substitute_edge(&s, &f, &sub);
            post_q(&s, &r, want);
            kani::cover!(s.cache.adds.get() > 0 && r.is_ok(), "non-terminal path with cache insertion");
        }
    };
}


// ---------------------------------------------------------------- constants, variables, eval, cofactors (C02)
macro_rules! base_var_eval {
    ($name:ident) => {
        #[kani::proof]
        #[kani::unwind(6)]
        fn $name() {
            let s = setup_order(0, 3, &[]);
            {
                let (ef, et) = (B::f_edge(&s), B::t_edge(&s));
                assert!(s.g(&ef) == 0, "C02: f is false under every assignment");
                assert!(s.g(&et) == !0, "C02: t is true under every assignment");
                s.drop_edge(ef);
                s.drop_edge(et);
            }
            let var: VarNo = kani::any();
            kani::assume((var as usize) < L);
            let l = s.var2level[var as usize] as usize;
            let which: u8 = kani::any();
            if which == 0 {
                let r = B::var_edge(&s, var);
                if let Ok(e) = &r {
                    assert!(s.g(e) == MASK[l], "C02: var(v) is true exactly under the assignments with v = 1 (under the current variable order)");
                }
                post_struct(&s, &r);
                kani::cover!(r.is_ok() && s.created.get() == 1, "variable node created");
            } else if which == 1 {
                let r = B::not_var_edge(&s, var);
                if let Ok(e) = &r {
                    assert!(s.g(e) == !MASK[l], "C02: not_var(v) is true exactly under the assignments with v = 0");
                }
                post_struct(&s, &r);
            } else if which == 2 {
                // eval against the ghost table, all variables given
                let f = sym::any_edge(&s, s.init_c.get());
                let vals: [bool; L] = k_any_bools_step();
                let mut a = 0usize; // assignment index by *level*
                macro_rules! lv { ($v:expr) => { if $v < L && vals[$v] { a |= 1 << (s.var2level[$v] as usize); } } }
                lv!(0); lv!(1); lv!(2); lv!(3);
                let got = B::eval_edge(&s, &f, k_args(&vals));
                assert!(got == ((s.g(&f) >> a) & 1 == 1), "C02: eval agrees with the node-by-node interpretation of the diagram under the current variable order");
                kani::cover!(got && !f.is_terminal(), "eval of an inner node to true");
            } else {
                let f = sym::any_edge(&s, s.init_c.get());
                match B::cofactors_edge(&s, &f) {
                    Some((t, e)) => {
                        let lf = s.level_of(&f) as usize;
                        assert!(lf < L && s.g(&t) == cof1(s.g(&f), lf) && s.g(&e) == cof0(s.g(&f), lf), "C02: cofactors are the two Shannon cofactors w.r.t. the top-most variable");
                    }
                    None => assert!(f.is_terminal(), "C02: only constants have no cofactors"),
                }
            }
        }
    };
}
pub fn k_any_bools_step() -> [bool; L] {
    let mut a = [false; L];
    macro_rules! e { ($i:expr) => { if $i < L { a[$i] = kani::any(); } } }
    e!(0); e!(1); e!(2); e!(3);
    a
}
pub fn k_args(vals: &[bool; L]) -> [(VarNo, bool); L] {
    let mut a = [(0, false); L];
    macro_rules! e { ($i:expr) => { if $i < L { a[$i] = ($i as VarNo, vals[$i]); } } }
    e!(0); e!(1); e!(2); e!(3);
    a
}

// ---------------------------------------------------------------- apply_quant: delegated terminal cases (C04, C05, C14)
/// One operand is a constant, so that the inner operator's terminal case applies and
/// apply_quant delegates to `not` + quantification / plain quantification. Here the lookup of
/// the delegated *quantification* (two operands) is the one that misses, i.e. the
/// quantification runs as the real top-level step and can run out of memory, which is what
/// exposes results that are not released on the error path.
macro_rules! step_apply_quant_deleg {
    ($name:ident, $f:ident, $q:expr, $bop:expr, $mi:expr, $spec:expr) => {
        #[kani::proof]
        #[kani::unwind(6)]
        fn $name() {
            use oxidd_core::function::BooleanFunctionQuant;
            let mut s = setup_n(RANK_APPLY_QUANT, $mi, al_apply_quant($q, $bop));
            s.cache.miss_arity = 2;
            let f = sym::any_edge(&s, s.init_c.get());
            let g = sym::any_edge(&s, s.init_c.get());
            let v = sym::any_edge(&s, s.init_c.get());
            kani::assume(f.is_terminal() || g.is_terminal());
            kani::assume(is_pos_cube(s.g(&v)) && s.g(&v) != 0);
            s.cache.top_level = 0;
            s.cache.top_rank = RANK_APPLY_QUANT;
            let spec: fn(G, G) -> G = $spec;
            let want = quant_tt($q, spec(s.g(&f), s.g(&g)), s.g(&v));
            let r = B::$f(&s, $bop, &f, &g, &v);
            post_q(&s, &r, want);
            kani::cover!(r.is_err(), "out-of-memory inside the delegated operation");
            kani::cover!(r.is_ok() && s.created.get() > 0, "delegated operation creates a node");
        }
    };
}
