// Truth-table helpers shared by the Boolean kinds. Requires `G` (u8 for L = 3,
// u16 for L = 4), `MASK: [G; L]` (assignments where the level-l variable is 1), `L`.

#[inline(always)]
pub fn cof1(f: G, l: usize) -> G {
    let h = f & MASK[l];
    h | (h >> (1 << l))
}
#[inline(always)]
pub fn cof0(f: G, l: usize) -> G {
    let h = f & !MASK[l];
    h | (h << (1 << l))
}
#[inline(always)]
pub fn depends(f: G, l: usize) -> bool {
    cof1(f, l) != cof0(f, l)
}
/// number of levels the function depends on
pub fn support_size(f: G) -> usize {
    let mut n = 0;
    macro_rules! lv { ($l:expr) => { if $l < L && depends(f, $l) { n += 1; } } }
    lv!(0); lv!(1); lv!(2); lv!(3);
    n
}
/// top-most level the function depends on (`L` for constants)
pub fn top_level_of(f: G) -> usize {
    let mut r = L;
    macro_rules! lv { ($l:expr) => { if $l < L && depends(f, $l) { r = $l; } } }
    lv!(3); lv!(2); lv!(1); lv!(0);
    r
}
/// conjunction of positive literals (possibly empty = true)
pub fn is_pos_cube(v: G) -> bool {
    let mut c: G = !0;
    macro_rules! lv { ($l:expr) => { if $l < L && depends(v, $l) { c &= MASK[$l]; } } }
    lv!(0); lv!(1); lv!(2); lv!(3);
    v == c
}
/// conjunction of literals of either polarity (possibly empty = true)
pub fn is_cube(v: G) -> bool {
    let mut c: G = !0;
    macro_rules! lv { ($l:expr) => { if $l < L && depends(v, $l) {
        c &= if cof1(v, $l) != 0 { MASK[$l] } else { !MASK[$l] };
    } } }
    lv!(0); lv!(1); lv!(2); lv!(3);
    v == c
}
#[derive(Clone, Copy, PartialEq, Eq)]
pub enum Q {
    Forall,
    Exists,
    Unique,
}
/// quantify `f` over the variable set denoted by the positive cube `v`
pub fn quant_tt(q: Q, mut f: G, v: G) -> G {
    macro_rules! lv { ($l:expr) => { if $l < L && depends(v, $l) {
        let (a, b) = (cof1(f, $l), cof0(f, $l));
        f = match q { Q::Forall => a & b, Q::Exists => a | b, Q::Unique => a ^ b };
    } } }
    lv!(0); lv!(1); lv!(2); lv!(3);
    f
}
/// cofactor of `f` w.r.t. the partial assignment denoted by the literal cube `v`
pub fn restrict_tt(mut f: G, v: G) -> G {
    macro_rules! lv { ($l:expr) => { if $l < L && depends(v, $l) {
        f = if cof1(v, $l) != 0 { cof1(f, $l) } else { cof0(f, $l) };
    } } }
    lv!(0); lv!(1); lv!(2); lv!(3);
    f
}
/// simultaneous substitution: level `l < len` is replaced by `r[l]`, other levels stay
pub fn subst_tt(f: G, r: &[G; L], len: usize) -> G {
    let mut out: G = 0;
    macro_rules! asg { ($a:expr) => { if $a < (1usize << L) {
        let mut idx = 0usize;
        macro_rules! lv { ($l:expr) => { if $l < L {
            let bit = if $l < len { (r[$l] >> $a) & 1 } else { (($a >> $l) & 1) as G };
            idx |= (bit as usize) << $l;
        } } }
        lv!(0); lv!(1); lv!(2); lv!(3);
        out |= ((f >> idx) & 1) << $a;
    } } }
    asg!(0); asg!(1); asg!(2); asg!(3); asg!(4); asg!(5); asg!(6); asg!(7);
    asg!(8); asg!(9); asg!(10); asg!(11); asg!(12); asg!(13); asg!(14); asg!(15);
    out
}
/// number of satisfying assignments over the `L` levels
pub fn popcount_tt(f: G) -> u32 {
    f.count_ones()
}

/// ghost state for substitution: replacement truth table per level and the id it belongs to
pub struct SubstGhost {
    pub subst_len: usize,
    pub subst_g: [G; L],
    pub subst_id: u32,
}
impl SubstGhost {
    pub fn none() -> Self {
        SubstGhost { subst_len: 0, subst_g: [0; L], subst_id: 0 }
    }
}

pub const RANK_NOT: u32 = 0;
pub const RANK_BIN: u32 = 1;
pub const RANK_ITE: u32 = 2;
pub const RANK_RESTRICT: u32 = 3;
pub const RANK_QUANT: u32 = 4;
pub const RANK_SUBST: u32 = 5;
pub const RANK_APPLY_QUANT: u32 = 6;
