//! see lib.rs

use linear_hashtbl::raw::RawTable;

pub const SLOTS: usize = 16;
/// key universe 0..K; the hash of key k is the symbolic h[k]
pub const K: usize = 4;
const FREE: u32 = u32::MAX;
const TOMB: u32 = u32::MAX - 1;
#[inline(always)]
fn from_hash(h: u64) -> u32 {
    h as u32 & (u32::MAX >> 1)
}
#[inline(always)]
fn is_hash(s: u32) -> bool {
    s >> 31 == 0
}

pub type Parts = [(u32, u8); SLOTS];

fn parts_of(t: &RawTable<u8, u32>) -> Parts {
    let mut p = [(FREE, 0u8); SLOTS];
    let mut i = 0;
    while i < SLOTS {
        let (s, v) = t.verif_slot(i);
        p[i] = (s, v.unwrap_or(0));
        i += 1;
    }
    p
}
fn present(p: &Parts, k: u8) -> bool {
    let mut r = false;
    let mut i = 0;
    while i < SLOTS {
        if is_hash(p[i].0) && p[i].1 == k {
            r = true;
        }
        i += 1;
    }
    r
}
fn count(p: &Parts, f: fn(u32) -> bool) -> usize {
    let mut c = 0;
    let mut i = 0;
    while i < SLOTS {
        if f(p[i].0) {
            c += 1;
        }
        i += 1;
    }
    c
}
/// Representation invariant of a 16-slot table over the hash function `h`
fn inv(p: &Parts, len: usize, free: usize, h: &[u64; K]) -> bool {
    let mut ok = len == count(p, is_hash) && free <= count(p, |s| s == FREE) && free >= SLOTS / 4;
    let mut i = 0;
    while i < SLOTS {
        let (s, k) = p[i];
        if is_hash(s) {
            ok = ok && (k as usize) < K && s == from_hash(h[(k as usize) % K]);
            // reachable from its home slot without crossing a FREE slot
            let home = h[(k as usize) % K] as usize & (SLOTS - 1);
            let d = (i + SLOTS - home) & (SLOTS - 1);
            let mut j = 0;
            while j < SLOTS {
                if j < d {
                    ok = ok && p[(home + j) & (SLOTS - 1)].0 != FREE;
                }
                j += 1;
            }
            // no duplicates
            let mut j = 0;
            while j < SLOTS {
                if j < i && is_hash(p[j].0) {
                    ok = ok && p[j].1 != k;
                }
                j += 1;
            }
        } else {
            ok = ok && (s == FREE || s == TOMB);
        }
        i += 1;
    }
    ok
}

struct St {
    t: RawTable<u8, u32>,
    p: Parts,
    h: [u64; K],
}
/// arbitrary table satisfying the invariant
fn any_table() -> (RawTable<u8, u32>, Parts, [u64; K]) {
    let h: [u64; K] = [kani::any(), kani::any(), kani::any(), kani::any()];
    let mut p: Parts = [(FREE, 0); SLOTS];
    let mut i = 0;
    while i < SLOTS {
        p[i] = (kani::any(), kani::any());
        i += 1;
    }
    let len: usize = kani::any();
    let free: usize = kani::any();
    kani::assume(len <= K && free <= SLOTS);
    kani::assume(inv(&p, len, free, &h));
    (RawTable::verif_from_parts(&p, len, free), p, h)
}
fn any_key() -> u8 {
    let k: u8 = kani::any();
    kani::assume((k as usize) < K);
    k
}

#[kani::proof]
#[kani::unwind(18)]
fn step_find_get() {
    let (t, p, h) = any_table();
    let q = any_key();
    let r = t.find(h[q as usize], |&x| x == q);
    match r {
        Some(i) => assert!(i < SLOTS && is_hash(p[i].0) && p[i].1 == q, "C17: find returns a slot that holds the searched element"),
        None => assert!(!present(&p, q), "C17: lookups find every element that is in the table"),
    }
    assert!(t.get(h[q as usize], |&x| x == q).copied() == if present(&p, q) { Some(q) } else { None }, "C17: get agrees with membership");
    assert!(t.len() == count(&p, is_hash), "C17: len reports the number of elements");
    kani::cover!(r.is_some(), "hit");
    kani::cover!(r.is_none() && count(&p, |s| s == TOMB) >= 10, "miss in a tombstone-heavy table");
    kani::cover!(r.map_or(false, |i| i < (h[q as usize] as usize & 15)), "wrap-around cluster");
    std::mem::forget(t);
}

/// Insertion without rehash. The free-slot counter decides (only) whether `reserve(1)`
/// rehashes; it is kept *concrete* so that the symbolic executor does not enter the
/// rehash code (the invariant allows any counter value between slots/4 and the real
/// number of FREE slots). One harness per counter value.
fn insert_no_rehash(free: usize) {
    let h: [u64; K] = [kani::any(), kani::any(), kani::any(), kani::any()];
    let mut p: Parts = [(FREE, 0); SLOTS];
    let mut i = 0;
    while i < SLOTS {
        p[i] = (kani::any(), kani::any());
        i += 1;
    }
    let len: usize = kani::any();
    kani::assume(len <= K);
    kani::assume(inv(&p, len, free, &h));
    let mut t = RawTable::verif_from_parts(&p, len, free);
    let q = any_key();
    let w = any_key();
    let r = t.find_or_find_insert_slot(h[q as usize], |&x| x == q);
    match r {
        Ok(i) => assert!(i < SLOTS && is_hash(p[i].0) && p[i].1 == q, "C17: an element that is present is found, not re-inserted"),
        Err(s) => {
            assert!(!present(&p, q), "C17: an insertion slot is only offered for an absent element");
            assert!(s < SLOTS && !is_hash(p[s].0), "C17: the insertion slot is not occupied");
            unsafe { t.insert_in_slot_unchecked(h[q as usize], s, q) };
        }
    }
    let p2 = parts_of(&t);
    assert!(inv(&p2, t.len(), t.verif_free(), &h), "C17: representation invariant preserved by insertion");
    assert!(present(&p2, w) == (present(&p, w) || w == q), "C17: after insertion the table contains exactly the old elements plus the new one");
    kani::cover!(match r { Err(s) => p[s].0 == TOMB, _ => false }, "tombstone reused");
    kani::cover!(r.is_err(), "new element");
    kani::cover!(r.is_ok(), "already present");
    std::mem::forget(t);
}
#[kani::proof]
#[kani::unwind(18)]
fn step_insert_free5() {
    insert_no_rehash(5)
}
#[kani::proof]
#[kani::unwind(18)]
fn step_insert_free12() {
    insert_no_rehash(12)
}

#[kani::proof]
#[kani::unwind(18)]
fn step_remove() {
    let (mut t, p, h) = any_table();
    let q = any_key();
    let w = any_key();
    let r = t.remove_entry(h[q as usize], |&x| x == q);
    assert!(r == if present(&p, q) { Some(q) } else { None }, "C17: remove returns the element iff it was present");
    let p2 = parts_of(&t);
    assert!(inv(&p2, t.len(), t.verif_free(), &h), "C17: representation invariant preserved by removal");
    assert!(present(&p2, w) == (present(&p, w) && w != q), "C17: after removal the table contains exactly the other elements");
    kani::cover!(r.is_some() && t.verif_free() > 4, "removal");
    std::mem::forget(t);
}


/// retain with an arbitrary predicate (bit mask over the keys): keeps exactly the accepted
/// elements, calls `drop` exactly once for each rejected one, preserves the invariant
/// (this is the kernel of the unique tables' garbage collection). The table holds at most 4
/// elements, i.e. the shrink path `reserve_rehash(0)` is part of the run whenever fewer than
/// 4 elements remain.
#[kani::proof]
#[kani::unwind(18)]
fn step_retain() {
    let (mut t, p, h) = any_table();
    let keep: u8 = kani::any();
    let dropped = std::cell::Cell::new(0u8);
    let twice = std::cell::Cell::new(false);
    t.retain(
        |x| keep & (1 << (*x & 7)) != 0,
        |x| {
            let b = 1u8 << (x & 7);
            if dropped.get() & b != 0 {
                twice.set(true);
            }
            dropped.set(dropped.get() | b);
        },
    );
    assert!(!twice.get(), "C17,C05: retain drops every rejected element exactly once");
    let w = any_key();
    let was = present(&p, w);
    let acc = keep & (1 << w) != 0;
    assert!((dropped.get() & (1 << w) != 0) == (was && !acc), "C17,C05: exactly the rejected elements are dropped");
    assert!(t.slots() == SLOTS || t.slots() == 0, "C17: a 16-slot table stays at the minimal capacity");
    if t.slots() == SLOTS {
        let p2 = parts_of(&t);
        assert!(inv(&p2, t.len(), t.verif_free(), &h), "C17: representation invariant preserved by retain (incl. shrink/rehash)");
        assert!(present(&p2, w) == (was && acc), "C17: retain keeps exactly the elements accepted by the predicate");
    } else {
        assert!(!(was && acc), "C17: an empty table after retain means nothing was accepted");
    }
    kani::cover!(t.len() >= 2 && dropped.get() != 0, "some kept, some dropped");
    std::mem::forget(t);
}

/// Insertion at the rehash boundary: the free-slot counter is at its minimum (slots/4), so
/// `reserve(1)` has to rehash (dropping the tombstones) before the element may take a FREE
/// slot. `len` and `free` are concrete so that the new capacity is concrete.
fn insert_rehash(len: usize) {
    let free = SLOTS / 4;
    let h: [u64; K] = [kani::any(), kani::any(), kani::any(), kani::any()];
    let mut p: Parts = [(FREE, 0); SLOTS];
    let mut i = 0;
    while i < SLOTS {
        p[i] = (kani::any(), kani::any());
        i += 1;
    }
    kani::assume(inv(&p, len, free, &h));
    let mut t = RawTable::verif_from_parts(&p, len, free);
    let q = any_key();
    let w = any_key();
    let r = t.find_or_find_insert_slot(h[q as usize], |&x| x == q);
    assert!(t.slots() == SLOTS, "C17: a 16-slot table with at most 4 elements stays at 16 slots");
    let p1 = parts_of(&t);
    let found_ok = match r {
        Ok(i) => i < SLOTS && is_hash(p1[i].0) && p1[i].1 == q && present(&p, q),
        Err(_) => true,
    };
    assert!(found_ok, "C17: an element that is present is found, not re-inserted");
    match r {
        Ok(_) => {}
        Err(s) => {
            assert!(!present(&p, q), "C17: an insertion slot is only offered for an absent element");
            assert!(s < SLOTS && !is_hash(p1[s].0), "C17: the insertion slot is not occupied");
            unsafe { t.insert_in_slot_unchecked(h[q as usize], s, q) };
        }
    }
    let p2 = parts_of(&t);
    assert!(inv(&p2, t.len(), t.verif_free(), &h), "C17: representation invariant (incl. free >= 25 %) preserved by insertion at the rehash boundary");
    assert!(present(&p2, w) == (present(&p, w) || w == q), "C17: after insertion the table contains exactly the old elements plus the new one");
    kani::cover!(r.is_err() && count(&p, |s| s == TOMB) >= 9, "new element, tombstones dropped by the rehash");
    kani::cover!(r.is_ok() || len == 0, "already present (if there is an element at all)");
    std::mem::forget(t);
}
#[kani::proof]
#[kani::unwind(18)]
fn step_insert_rehash_len0() {
    insert_rehash(0)
}
#[kani::proof]
#[kani::unwind(18)]
fn step_insert_rehash_len1() {
    insert_rehash(1)
}

/// `reserve_rehash` is verified separately (step_insert_rehash_*); here it is cut off so that
/// the tombstone logic of `retain` itself is decided: the stub records the request only.
static REHASH_REQUESTED: std::sync::atomic::AtomicBool = std::sync::atomic::AtomicBool::new(false);
fn stub_reserve_rehash<T, S: linear_hashtbl::raw::Status, A: linear_hashtbl::VerifAllocator + Clone>(_t: &mut RawTable<T, S, A>, additional: usize) {
    assert!(additional == 0, "C17: retain only ever asks for a shrinking rehash");
    REHASH_REQUESTED.store(true, std::sync::atomic::Ordering::Relaxed);
}

/// retain with an arbitrary predicate (bit mask over the keys), shrink/rehash cut off:
/// keeps exactly the accepted elements, calls `drop` exactly once for each rejected one,
/// leaves every kept element reachable from its home slot (no FREE slot inside a probe chain).
#[kani::proof]
#[kani::unwind(18)]
#[kani::stub(linear_hashtbl::raw::RawTable::reserve_rehash, stub_reserve_rehash)]
fn step_retain_norehash() {
    let (mut t, p, h) = any_table();
    let keep: u8 = kani::any();
    let dropped = std::cell::Cell::new(0u8);
    let twice = std::cell::Cell::new(false);
    t.retain(
        |x| keep & (1 << (*x & 7)) != 0,
        |x| {
            let b = 1u8 << (x & 7);
            if dropped.get() & b != 0 {
                twice.set(true);
            }
            dropped.set(dropped.get() | b);
        },
    );
    assert!(!twice.get(), "C17,C05: retain drops every rejected element exactly once");
    let w = any_key();
    let was = present(&p, w);
    let acc = keep & (1 << w) != 0;
    assert!((dropped.get() & (1 << w) != 0) == (was && !acc), "C17,C05: exactly the rejected elements are dropped");
    // (in a native replay the stub is not in effect and the real rehash may have emptied the table)
    if t.slots() == SLOTS {
        let p2 = parts_of(&t);
        assert!(inv(&p2, t.len(), t.verif_free(), &h), "C17: representation invariant preserved by retain (kept elements stay reachable, counters exact)");
        assert!(present(&p2, w) == (was && acc), "C17: retain keeps exactly the elements accepted by the predicate");
    }
    let shrink = REHASH_REQUESTED.load(std::sync::atomic::Ordering::Relaxed);
    assert!(!shrink || t.len() < SLOTS / 4, "C17: a shrinking rehash is only requested when fewer than a quarter of the slots stay occupied");
    kani::cover!(shrink, "shrink requested");
    kani::cover!(t.len() >= 2 && dropped.get() != 0, "some kept, some dropped");
    kani::cover!(t.slots() == SLOTS && count(&parts_of(&t), |s| s == TOMB) < count(&p, |s| s == TOMB), "tombstones compacted");
    std::mem::forget(t);
}
