//! C17: the real `linear_hashtbl::raw::RawTable<u8, u32>` — one operation from an
//! *arbitrary* table satisfying the representation invariant (one-step induction),
//! with an arbitrary hash function over a small key universe.
#![allow(unused, clippy::all)]

#[cfg(kani)]
mod proofs;
