use super::*;

fn blank() -> UnsafeCell<SNode> {
    UnsafeCell::new(SNode {
        children: UnsafeCell::new([SEdge(0), SEdge(0)]),
        level: Cell::new(0),
        rc: Cell::new(0),
        tab: Cell::new(NOTAB),
        key: Cell::new([0, 0]),
        alive: Cell::new(false),
        g: Cell::new(0),
    })
}
/// structure of alive node `i`: ordered, reduced, unique among the alive nodes of its level,
/// stored in the table of its level under its current children
fn wf_node(m: &SManager, i: usize) -> bool {
    if i >= m.len.get() {
        return true;
    }
    let n = m.node(i);
    if !n.alive.get() {
        return true;
    }
    let l = n.level.get();
    if l as usize >= L {
        return false;
    }
    let c = n.ch();
    if c[0] == c[1] {
        return false;
    }
    macro_rules! child { ($k:expr) => {{
        let id = c[$k];
        if id >= NT {
            let j = (id - NT) as usize;
            if j >= m.len.get() || !m.node(j).alive.get() || m.node(j).level.get() <= l { return false; }
        }
    }} }
    child!(0);
    child!(1);
    if n.tab.get() != m.tab_of_level(l) || n.key.get() != c {
        return false;
    }
    for_slots!(J => { if J < i && J < m.len.get() { let o = m.node(J); if o.alive.get() && o.level.get() == l && o.ch() == c { return false; } } });
    true
}
fn wf(m: &SManager) -> bool {
    let mut ok = m.len.get() <= N;
    for_slots!(I => { ok = ok && wf_node(m, I); });
    ok
}
fn compute_ghost(m: &SManager) {
    macro_rules! lv { ($l:expr) => { for_slots!(I => { if I < m.len.get() { let n = m.node(I); if n.alive.get() && n.level.get() == $l {
        let c = n.ch();
        n.g.set((m.g(c[0]) & MASK[$l]) | (m.g(c[1]) & !MASK[$l]));
    } } }); } }
    lv!(2); lv!(1); lv!(0);
}
/// number of alive parents' edges pointing to node id
fn parents(m: &SManager, id: u32) -> usize {
    let mut c = 0;
    for_slots!(I => { if I < m.len.get() { let n = m.node(I); if n.alive.get() { let ch = n.ch(); if ch[0] == id { c += 1; } if ch[1] == id { c += 1; } } } });
    c
}
/// truth table with the variables at levels `l` and `l + 1` exchanged
fn swap_tt(g: u8, l: usize) -> u8 {
    let mut r = 0u8;
    macro_rules! a { ($a:expr) => {{
        let bl = ($a >> l) & 1;
        let bh = ($a >> (l + 1)) & 1;
        let b: usize = ($a & !(3 << l)) | (bh << l) | (bl << (l + 1));
        r |= ((g >> b) & 1) << $a;
    }} }
    a!(0usize); a!(1usize); a!(2usize); a!(3usize); a!(4usize); a!(5usize); a!(6usize); a!(7usize);
    r
}

/// One `level_down(upper)` from an arbitrary well-formed BDD with external references:
/// every referenced function is preserved (as a function of the *variables*), the diagram is
/// canonical and well-formed again, reference counts are exact, no node is leaked.
fn level_down_harness(upper: LevelNo, max_init: usize) {
    let init: usize = kani::any();
    kani::assume(init <= max_init);
    let m: SManager<'static> = SManager {
        _p: PhantomData,
        slots: [blank(), blank(), blank(), blank(), blank(), blank(), blank(), blank()],
        self_edges: [SEdge(2), SEdge(3), SEdge(4), SEdge(5), SEdge(6), SEdge(7), SEdge(8), SEdge(9)],
        len: Cell::new(init),
        cap: N,
        level_tab: [Cell::new(0), Cell::new(1), Cell::new(2)],
        next_tab: Cell::new(3),
        var2level: [Cell::new(0), Cell::new(1), Cell::new(2)],
        level2var: [Cell::new(0), Cell::new(1), Cell::new(2)],
    };
    let mut ext = [0usize; N];
    for_slots!(I => { if I < max_init && I < init {
        let lvl: LevelNo = kani::any();
        kani::assume((lvl as usize) < L);
        let c0: u32 = kani::any();
        let c1: u32 = kani::any();
        kani::assume((c0 as usize) < NT as usize + init && (c1 as usize) < NT as usize + init);
        let node = SNode {
            children: UnsafeCell::new([SEdge(c0), SEdge(c1)]),
            level: Cell::new(lvl),
            rc: Cell::new(0),
            tab: Cell::new(lvl as u8),
            key: Cell::new([c0, c1]),
            alive: Cell::new(true),
            g: Cell::new(0),
        };
        unsafe { std::ptr::write(m.slots[I].get(), node) };
        let e: usize = kani::any();
        kani::assume(e <= 2);
        ext[I] = e;
    } });
    kani::assume(wf(&m));
    // at most two nodes on the upper level (each may need two new nodes on the new lower level)
    {
        let mut cnt = 0;
        for_slots!(I => { if I < init && m.node(I).level.get() == upper { cnt += 1; } });
        kani::assume(cnt <= 2);
    }
    compute_ghost(&m);
    let mut g_pre = [0u8; N];
    for_slots!(I => { if I < init {
        let n = m.node(I);
        n.rc.set(1 + parents(&m, I as u32 + NT) + ext[I]);
        g_pre[I] = n.g.get();
    } });
    // nodes nobody refers to would have been collected before reordering starts only if the
    // caller ran gc; reordering must cope with them as well, so they are allowed.

    unsafe { oxidd_reorder::level_down(&m, upper) };

    let u = upper as usize;
    // the variable <-> level maps are swapped
    assert!(m.level2var[u].get() == upper + 1 && m.level2var[u + 1].get() == upper, "C08: the variable/level maps reflect the new order");
    assert!(m.var2level[u].get() == upper + 1 && m.var2level[u + 1].get() == upper, "C08: the variable/level maps reflect the new order (inverse)");
    assert!(wf(&m), "C08,C01,C03: after a level swap the diagram is ordered, reduced, duplicate-free and every node is stored in the table of its level under its current children");
    compute_ghost(&m);
    for_slots!(I => { if I < m.len.get() {
        let n = m.node(I);
        if I < init && ext[I] > 0 {
            assert!(n.alive.get(), "C08,C05: a node with a live handle survives reordering");
            assert!(n.g.get() == swap_tt(g_pre[I], u), "C08: every pre-existing handle denotes the same function of the variables after the swap");
        }
        if n.alive.get() {
            let e = if I < init { ext[I] } else { 0 };
            assert!(n.rc.get() == 1 + parents(&m, I as u32 + NT) + e, "C05,C08: reference counts are exact after the swap");
            assert!(n.tab.get() != NOTAB, "C05,C08: no node is left outside the unique tables (leak)");
        }
    } });
    kani::cover!(m.len.get() > init, "a node was created by the swap");
    kani::cover!(m.num_inner_nodes() < init, "a node was freed by the swap");
    std::mem::forget(m);
}

#[kani::proof]
#[kani::unwind(7)]
fn level_down_0() {
    level_down_harness(0, 4)
}
#[kani::proof]
#[kani::unwind(7)]
fn level_down_1() {
    level_down_harness(1, 4)
}
