//! C08 (level swap): the real `oxidd_reorder::level_down` / `level_swap` over a stub manager
//! whose level views behave like the real unique tables under reordering: nodes are looked
//! up by the children they had *when they were inserted* (a hash table does not notice that
//! a stored node's children change), tables can be swapped / taken, and reference counts
//! are real (table reference included, `ref_count()` reports the count without it, as the
//! index manager does).
#![allow(unused, clippy::all)]

use std::cell::{Cell, UnsafeCell};
use std::hash::{Hash, Hasher};
use std::marker::PhantomData;
use std::ops::Range;

use oxidd_core::error::{DuplicateVarName, OutOfMemory};
use oxidd_core::util::{AllocResult, Borrowed, BorrowedEdgeIter, DropWith, NodeSet};
use oxidd_core::{Edge, HasLevel, InnerNode, LevelNo, LevelView, Manager, Node, NodeID, VarNo};
use oxidd_rules_bdd::simple::{BDDRules, BDDTerminal};

pub const N: usize = 8;
pub const L: usize = 3;
pub const NT: u32 = 2;
pub const NOTAB: u8 = 0xFF;
pub const MASK: [u8; L] = [0xAA, 0xCC, 0xF0];

macro_rules! for_slots {
    ($i:ident => $body:block) => {
        { const $i: usize = 0; if $i < N $body }
        { const $i: usize = 1; if $i < N $body }
        { const $i: usize = 2; if $i < N $body }
        { const $i: usize = 3; if $i < N $body }
        { const $i: usize = 4; if $i < N $body }
        { const $i: usize = 5; if $i < N $body }
        { const $i: usize = 6; if $i < N $body }
        { const $i: usize = 7; if $i < N $body }
    };
}
macro_rules! for_slots_rev {
    ($i:ident => $body:block) => {
        { const $i: usize = 7; if $i < N $body }
        { const $i: usize = 6; if $i < N $body }
        { const $i: usize = 5; if $i < N $body }
        { const $i: usize = 4; if $i < N $body }
        { const $i: usize = 3; if $i < N $body }
        { const $i: usize = 2; if $i < N $body }
        { const $i: usize = 1; if $i < N $body }
        { const $i: usize = 0; if $i < N $body }
    };
}

#[derive(PartialEq, Eq, PartialOrd, Ord, Hash, Debug)]
pub struct SEdge(pub u32);
impl Edge for SEdge {
    type Tag = ();
    fn borrowed(&self) -> Borrowed<'_, Self> {
        Borrowed::new(SEdge(self.0))
    }
    fn with_tag(&self, _t: ()) -> Borrowed<'_, Self> {
        Borrowed::new(SEdge(self.0))
    }
    fn with_tag_owned(self, _t: ()) -> Self {
        self
    }
    fn tag(&self) {}
    fn node_id(&self) -> NodeID {
        self.0 as NodeID
    }
}

pub struct SNode {
    pub children: UnsafeCell<[SEdge; 2]>,
    pub level: Cell<LevelNo>,
    /// all references: parents, handles, and the unique table's own reference
    pub rc: Cell<usize>,
    /// id of the table this node is stored in (NOTAB = none)
    pub tab: Cell<u8>,
    /// children at insertion time = the key the table knows the node by
    pub key: Cell<[u32; 2]>,
    pub alive: Cell<bool>,
    pub g: Cell<u8>,
}
impl SNode {
    pub fn ch(&self) -> [u32; 2] {
        let c = unsafe { &*self.children.get() };
        [c[0].0, c[1].0]
    }
}
impl PartialEq for SNode {
    fn eq(&self, o: &Self) -> bool {
        self.ch() == o.ch()
    }
}
impl Eq for SNode {}
impl Hash for SNode {
    fn hash<H: Hasher>(&self, s: &mut H) {
        self.ch().hash(s)
    }
}
impl DropWith<SEdge> for SNode {
    fn drop_with(self, drop_edge: impl Fn(SEdge)) {
        let [a, b] = self.children.into_inner();
        drop_edge(a);
        drop_edge(b);
    }
}
impl InnerNode<SEdge> for SNode {
    const ARITY: usize = 2;
    type ChildrenIter<'a> = BorrowedEdgeIter<'a, SEdge, std::slice::Iter<'a, SEdge>>;
    fn new(level: LevelNo, children: impl IntoIterator<Item = SEdge>) -> Self {
        let mut it = children.into_iter();
        let a = it.next().unwrap();
        let b = it.next().unwrap();
        SNode {
            children: UnsafeCell::new([a, b]),
            level: Cell::new(level),
            rc: Cell::new(0),
            tab: Cell::new(NOTAB),
            key: Cell::new([0, 0]),
            alive: Cell::new(false),
            g: Cell::new(0),
        }
    }
    fn check_level(&self, check: impl FnOnce(LevelNo) -> bool) -> bool {
        check(self.level.get())
    }
    fn assert_level_matches(&self, level: LevelNo) {
        assert!(self.level.get() == level, "C03,C08: node level matches the level it is used at");
    }
    fn children(&self) -> Self::ChildrenIter<'_> {
        BorrowedEdgeIter::from(unsafe { &*self.children.get() }.iter())
    }
    fn child(&self, n: usize) -> Borrowed<'_, SEdge> {
        (unsafe { &*self.children.get() })[n].borrowed()
    }
    unsafe fn set_child(&self, n: usize, child: SEdge) -> SEdge {
        std::mem::replace(&mut unsafe { &mut *self.children.get() }[n], child)
    }
    /// as in the index manager: the table's reference is not counted
    fn ref_count(&self) -> usize {
        self.rc.get() - 1
    }
}
unsafe impl HasLevel for SNode {
    fn level(&self) -> LevelNo {
        self.level.get()
    }
    unsafe fn set_level(&self, level: LevelNo) {
        self.level.set(level)
    }
}

#[derive(Clone, Default, PartialEq, Eq)]
pub struct SNodeSet(u32);
impl NodeSet<SEdge> for SNodeSet {
    fn len(&self) -> usize {
        self.0.count_ones() as usize
    }
    fn insert(&mut self, e: &SEdge) -> bool {
        let b = 1u32 << e.0;
        let r = self.0 & b == 0;
        self.0 |= b;
        r
    }
    fn contains(&self, e: &SEdge) -> bool {
        self.0 & (1u32 << e.0) != 0
    }
    fn remove(&mut self, e: &SEdge) -> bool {
        let b = 1u32 << e.0;
        let r = self.0 & b != 0;
        self.0 &= !b;
        r
    }
}

pub struct SManager<'id> {
    _p: PhantomData<fn(&'id ()) -> &'id ()>,
    pub slots: [UnsafeCell<SNode>; N],
    /// edge values for the nodes, so that iterators can hand out `&SEdge`
    pub self_edges: [SEdge; N],
    pub len: Cell<usize>,
    pub cap: usize,
    /// table id stored at each level
    pub level_tab: [Cell<u8>; L],
    pub next_tab: Cell<u8>,
    pub var2level: [Cell<LevelNo>; L],
    pub level2var: [Cell<VarNo>; L],
}
impl<'id> SManager<'id> {
    /// concrete-index selection (no pointer with a symbolic offset)
    #[inline(always)]
    pub fn node(&self, i: usize) -> &SNode {
        let p: &UnsafeCell<SNode> = match i {
            0 => &self.slots[0],
            1 => &self.slots[1],
            2 => &self.slots[2],
            3 => &self.slots[3],
            4 => &self.slots[4],
            5 => &self.slots[5],
            6 => &self.slots[6],
            _ => {
                assert!(i == 7, "index out of bounds: node slot");
                &self.slots[7]
            }
        };
        unsafe { &*p.get() }
    }
    #[inline(always)]
    pub fn edge_ref(&self, i: usize) -> &SEdge {
        match i {
            0 => &self.self_edges[0],
            1 => &self.self_edges[1],
            2 => &self.self_edges[2],
            3 => &self.self_edges[3],
            4 => &self.self_edges[4],
            5 => &self.self_edges[5],
            6 => &self.self_edges[6],
            _ => &self.self_edges[7],
        }
    }
    pub fn g(&self, id: u32) -> u8 {
        if id == 0 { 0 } else if id == 1 { 0xFF } else { self.node((id - NT) as usize).g.get() }
    }
    pub fn level_of(&self, id: u32) -> LevelNo {
        if id < NT { L as LevelNo } else { self.node((id - NT) as usize).level.get() }
    }
    fn tab_of_level(&self, l: LevelNo) -> u8 {
        match l {
            0 => self.level_tab[0].get(),
            1 => self.level_tab[1].get(),
            _ => self.level_tab[2].get(),
        }
    }
    // ---- table operations (shared by the level views and the taken views)
    fn tab_len(&self, t: u8) -> usize {
        let mut c = 0;
        for_slots!(I => { if I < self.len.get() { let n = self.node(I); if n.alive.get() && n.tab.get() == t { c += 1; } } });
        c
    }
    /// slot of the entry of table `t` that the table considers equal to a node with `children`
    fn tab_find(&self, t: u8, children: [u32; 2]) -> usize {
        let mut found = N;
        for_slots_rev!(I => { if I < self.len.get() { let n = self.node(I); if n.alive.get() && n.tab.get() == t && n.key.get() == children { found = I; } } });
        found
    }
    fn tab_insert(&self, t: u8, edge: SEdge) -> bool {
        assert!(edge.0 >= NT, "HARNESS: only inner nodes are stored in level tables");
        let i = (edge.0 - NT) as usize;
        let n = self.node(i);
        assert!(n.alive.get(), "C08,C05: no edge to a freed node is used");
        let f = self.tab_find(t, n.ch());
        if f < N {
            // an equal entry exists: the passed edge is dropped (as LevelViewSet::insert does)
            assert!(n.rc.get() > 1, "C05,C08: dropping an edge never removes the last reference of a stored node");
            n.rc.set(n.rc.get() - 1);
            return false;
        }
        assert!(n.tab.get() == NOTAB, "C03,C08: a node is stored in at most one level table");
        n.tab.set(t);
        n.key.set(n.ch());
        true
    }
    fn tab_get_or_insert(&self, t: u8, node: SNode) -> AllocResult<SEdge> {
        let f = self.tab_find(t, node.ch());
        if f < N {
            node.drop_with(|e| self.drop_edge(e));
            let n = self.node(f);
            n.rc.set(n.rc.get() + 1);
            return Ok(SEdge(f as u32 + NT));
        }
        let len = self.len.get();
        // level_swap aborts the process when it runs out of memory (documented); the harness
        // keeps the number of rewritten nodes small enough, so this stub never reports it
        assert!(len < N, "HARNESS: slot capacity of the stub suffices");
        node.rc.set(2); // table + returned edge
        node.tab.set(t);
        node.key.set(node.ch());
        node.alive.set(true);
        unsafe { std::ptr::write(self.slots[len].get(), node) };
        self.len.set(len + 1);
        Ok(SEdge(len as u32 + NT))
    }
    fn tab_remove(&self, t: u8, node: &SNode) -> bool {
        let f = self.tab_find(t, node.ch());
        if f >= N {
            return false;
        }
        let n = self.node(f);
        n.tab.set(NOTAB);
        // drop the table's reference; free the slot if it was the last one
        n.rc.set(n.rc.get() - 1);
        if n.rc.get() == 0 {
            n.alive.set(false);
            let c = n.ch();
            self.drop_edge(SEdge(c[0]));
            self.drop_edge(SEdge(c[1]));
        }
        true
    }
}

pub struct SIter<'a, 'id> {
    m: &'a SManager<'id>,
    tab: u8,
    pos: usize,
}
impl<'a, 'id> Iterator for SIter<'a, 'id> {
    type Item = &'a SEdge;
    fn next(&mut self) -> Option<&'a SEdge> {
        let m = self.m;
        let mut found = N;
        for_slots_rev!(I => { if I >= self.pos && I < m.len.get() { let n = m.node(I); if n.alive.get() && n.tab.get() == self.tab { found = I; } } });
        if found < N {
            self.pos = found + 1;
            Some(m.edge_ref(found))
        } else {
            self.pos = N;
            None
        }
    }
}

pub struct SLevelView<'a, 'id> {
    pub m: &'a SManager<'id>,
    pub level: LevelNo,
}
pub struct STaken<'a, 'id> {
    pub m: &'a SManager<'id>,
    pub tab: u8,
    pub level: LevelNo,
}
macro_rules! impl_level_view {
    ($ty:ident, $tab:expr, $take:expr) => {
        unsafe impl<'a, 'id> LevelView<SEdge, SNode> for $ty<'a, 'id> {
            type Iterator<'b>
                = SIter<'b, 'id>
            where
                Self: 'b;
            type Taken = STaken<'a, 'id>;
            fn len(&self) -> usize {
                self.m.tab_len($tab(self))
            }
            fn level_no(&self) -> LevelNo {
                self.level
            }
            fn reserve(&mut self, _a: usize) {}
            fn get(&self, node: &SNode) -> Option<&SEdge> {
                let f = self.m.tab_find($tab(self), node.ch());
                if f < N { Some(self.m.edge_ref(f)) } else { None }
            }
            fn insert(&mut self, e: SEdge) -> bool {
                if e.0 >= NT {
                    self.m.node((e.0 - NT) as usize).assert_level_matches(self.level);
                }
                self.m.tab_insert($tab(self), e)
            }
            unsafe fn insert_unchecked(&mut self, e: SEdge) -> bool {
                self.m.tab_insert($tab(self), e)
            }
            fn get_or_insert(&mut self, node: SNode) -> AllocResult<SEdge> {
                node.assert_level_matches(self.level);
                self.m.tab_get_or_insert($tab(self), node)
            }
            unsafe fn get_or_insert_unchecked(&mut self, node: SNode) -> AllocResult<SEdge> {
                self.m.tab_get_or_insert($tab(self), node)
            }
            fn gc(&mut self) {}
            fn remove(&mut self, n: &SNode) -> bool {
                self.m.tab_remove($tab(self), n)
            }
            unsafe fn swap(&mut self, o: &mut Self) {
                $take(self, o)
            }
            fn iter(&self) -> Self::Iterator<'_> {
                SIter { m: self.m, tab: $tab(self), pos: 0 }
            }
            fn take(&mut self) -> Option<Self::Taken> {
                let m = self.m;
                let old = $tab(self);
                let fresh = m.next_tab.get();
                m.next_tab.set(fresh + 1);
                set_tab(self, fresh);
                Some(STaken { m, tab: old, level: self.level })
            }
        }
    };
}
fn view_tab(v: &SLevelView) -> u8 {
    v.m.tab_of_level(v.level)
}
fn taken_tab(v: &STaken) -> u8 {
    v.tab
}
trait SetTab {
    fn set_tab_(&mut self, t: u8);
}
impl SetTab for SLevelView<'_, '_> {
    fn set_tab_(&mut self, t: u8) {
        match self.level {
            0 => self.m.level_tab[0].set(t),
            1 => self.m.level_tab[1].set(t),
            _ => self.m.level_tab[2].set(t),
        }
    }
}
impl SetTab for STaken<'_, '_> {
    fn set_tab_(&mut self, t: u8) {
        self.tab = t
    }
}
fn set_tab<T: SetTab>(v: &mut T, t: u8) {
    v.set_tab_(t)
}
fn swap_views(a: &mut SLevelView, b: &mut SLevelView) {
    let m = a.m;
    let (la, lb) = (a.level, b.level);
    let (ta, tb) = (m.tab_of_level(la), m.tab_of_level(lb));
    a.set_tab_(tb);
    b.set_tab_(ta);
    // swap the variable <-> level maps as LevelView::swap of the real managers does
    let geti = |arr: &[Cell<u32>; L], i: u32| match i { 0 => arr[0].get(), 1 => arr[1].get(), _ => arr[2].get() };
    let seti = |arr: &[Cell<u32>; L], i: u32, v: u32| match i { 0 => arr[0].set(v), 1 => arr[1].set(v), _ => arr[2].set(v) };
    let (va, vb) = (geti(&m.level2var, la), geti(&m.level2var, lb));
    seti(&m.level2var, la, vb);
    seti(&m.level2var, lb, va);
    seti(&m.var2level, va, lb);
    seti(&m.var2level, vb, la);
}
fn swap_taken(_a: &mut STaken, _b: &mut STaken) {
    unimplemented!()
}
impl_level_view!(SLevelView, view_tab, swap_views);
impl_level_view!(STaken, taken_tab, swap_taken);

pub struct SLevelIter<'a, 'id> {
    m: &'a SManager<'id>,
    front: LevelNo,
    back: LevelNo,
}
impl<'a, 'id> Iterator for SLevelIter<'a, 'id> {
    type Item = SLevelView<'a, 'id>;
    fn next(&mut self) -> Option<Self::Item> {
        if self.front < self.back {
            let l = self.front;
            self.front += 1;
            Some(SLevelView { m: self.m, level: l })
        } else {
            None
        }
    }
    fn size_hint(&self) -> (usize, Option<usize>) {
        let n = (self.back - self.front) as usize;
        (n, Some(n))
    }
}
impl<'a, 'id> DoubleEndedIterator for SLevelIter<'a, 'id> {
    fn next_back(&mut self) -> Option<Self::Item> {
        if self.front < self.back {
            self.back -= 1;
            Some(SLevelView { m: self.m, level: self.back })
        } else {
            None
        }
    }
}
impl<'a, 'id> ExactSizeIterator for SLevelIter<'a, 'id> {}

unsafe impl<'id> Manager for SManager<'id> {
    type Edge = SEdge;
    type EdgeTag = ();
    type InnerNode = SNode;
    type Terminal = BDDTerminal;
    type TerminalRef<'a>
        = BDDTerminal
    where
        Self: 'a;
    type Rules = BDDRules;
    type TerminalIterator<'a>
        = std::iter::Empty<SEdge>
    where
        Self: 'a;
    type NodeSet = SNodeSet;
    type LevelView<'a>
        = SLevelView<'a, 'id>
    where
        Self: 'a;
    type LevelIterator<'a>
        = SLevelIter<'a, 'id>
    where
        Self: 'a;

    fn get_node(&self, e: &SEdge) -> Node<'_, Self> {
        if e.0 >= NT {
            let n = self.node((e.0 - NT) as usize);
            assert!(n.alive.get(), "C08,C05: no edge to a freed node is used");
            Node::Inner(n)
        } else if e.0 == 1 {
            Node::Terminal(BDDTerminal::True)
        } else {
            Node::Terminal(BDDTerminal::False)
        }
    }
    fn clone_edge(&self, e: &SEdge) -> SEdge {
        if e.0 >= NT {
            let n = self.node((e.0 - NT) as usize);
            assert!(n.alive.get(), "C08,C05: no edge to a freed node is used");
            n.rc.set(n.rc.get() + 1);
        }
        SEdge(e.0)
    }
    /// Contract of the real managers: an edge that is dropped is not the last reference of its
    /// node (a node only dies through its unique table: gc / remove); otherwise the node leaks.
    fn drop_edge(&self, e: SEdge) {
        if e.0 >= NT {
            let n = self.node((e.0 - NT) as usize);
            assert!(n.alive.get(), "C08,C05: no edge to a freed node is used");
            assert!(n.rc.get() > 1 || n.tab.get() != NOTAB,
                "C05,C08: the last reference of a node that is in no unique table is dropped (the node is leaked)");
            n.rc.set(n.rc.get() - 1);
        }
    }
    fn try_remove_node(&self, e: SEdge, _l: LevelNo) -> bool {
        self.drop_edge(e);
        false
    }
    fn num_inner_nodes(&self) -> usize {
        let mut c = 0;
        for_slots!(I => { if I < self.len.get() && self.node(I).alive.get() { c += 1; } });
        c
    }
    fn num_levels(&self) -> LevelNo {
        L as LevelNo
    }
    fn num_named_vars(&self) -> VarNo {
        0
    }
    fn add_vars(&mut self, _a: VarNo) -> Range<VarNo> {
        unimplemented!()
    }
    fn add_named_vars<S: Into<String>>(&mut self, _n: impl IntoIterator<Item = S>) -> Result<Range<VarNo>, DuplicateVarName> {
        unimplemented!()
    }
    fn add_named_vars_from_map(&mut self, _map: oxidd_core::util::VarNameMap) -> Result<Range<VarNo>, DuplicateVarName> {
        unimplemented!()
    }
    fn var_name(&self, _v: VarNo) -> &str {
        ""
    }
    fn set_var_name(&mut self, _v: VarNo, _n: impl Into<String>) -> Result<(), DuplicateVarName> {
        unimplemented!()
    }
    fn name_to_var(&self, _n: impl AsRef<str>) -> Option<VarNo> {
        None
    }
    fn var_to_level(&self, v: VarNo) -> LevelNo {
        match v { 0 => self.var2level[0].get(), 1 => self.var2level[1].get(), _ => self.var2level[2].get() }
    }
    fn level_to_var(&self, l: LevelNo) -> VarNo {
        match l { 0 => self.level2var[0].get(), 1 => self.level2var[1].get(), _ => self.level2var[2].get() }
    }
    fn level(&self, no: LevelNo) -> SLevelView<'_, 'id> {
        assert!((no as usize) < L, "C03: level number in range");
        SLevelView { m: self, level: no }
    }
    unsafe fn level_unchecked(&self, no: LevelNo) -> SLevelView<'_, 'id> {
        SLevelView { m: self, level: no }
    }
    fn levels(&self) -> SLevelIter<'_, 'id> {
        SLevelIter { m: self, front: 0, back: L as LevelNo }
    }
    fn get_terminal(&self, t: BDDTerminal) -> AllocResult<SEdge> {
        Ok(SEdge(t as u32))
    }
    fn num_terminals(&self) -> usize {
        2
    }
    fn terminals(&self) -> Self::TerminalIterator<'_> {
        std::iter::empty()
    }
    fn gc(&self) -> usize {
        0
    }
    fn reorder<TT>(&mut self, f: impl FnOnce(&mut Self) -> TT) -> TT {
        f(self)
    }
    fn gc_count(&self) -> u64 {
        0
    }
    fn reorder_count(&self) -> u64 {
        0
    }
}

#[cfg(kani)]
mod proofs;
