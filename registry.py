"""Harness registry: which Kani harness serves which property at which tier."""

CRATES = {
    "kernels": {},
    "bdd": {},
}

# name, props (first = primary: untagged failures such as Rust panics are
# attributed to it), tier, profile, timeout, bounds
H = []


def add(crate, name, props, tier="quick", profile="lean", timeout=600, mem_gb=12, bounds="", **kw):
    d = dict(crate=crate, name=name, props=list(props), tier=tier, profile=profile, timeout=timeout,
             mem_gb=mem_gb, bounds=bounds)
    d.update(kw)
    H.append(d)


# ---------------------------------------------------------------- C10 scalar kernels
for op, b in [("add", "full 64x64 bit + NaN/+-inf"), ("sub", "full 64x64 bit + NaN/+-inf"),
              ("mul", "full 64x64 bit + NaN/+-inf"), ("cmp", "full 64x64 bit + NaN/+-inf"),
              ("div_special", "all operand classes except finite/non-zero finite"),
              ("div_a32_d8", "dividend 32 bit (sign-extended) or i64::MIN/MAX; divisor 8 bit")]:
    add("kernels", "i64_terminal::c10_i64_" + op, ["C10"], profile="full", timeout=900, bounds=b)
add("kernels", "i64_terminal::c10_i64_div_d8", ["C10"], tier="thorough", profile="full", timeout=3000,
    bounds="dividend 64 bit; divisor 8 bit (sign-extended) or i64::MIN/MAX")
add("kernels", "i64_terminal::c10_i64_div_d16", ["C10"], tier="thorough", profile="full", timeout=3000,
    bounds="dividend 64 bit; divisor 16 bit (sign-extended) or i64::MIN/MAX")

# ---------------------------------------------------------------- BDD / BCDD step harnesses
BOOL_STEP_PROPS = ["C02", "C01", "C03", "C05", "C06", "C14"]
BOOL_Q_PROPS = ["C04", "C01", "C03", "C05", "C06", "C14"]
AQ_QUICK = {"bdd": {"exists_and", "forall_or", "unique_xor", "forall_imp"},
            "bcdd": set()}
# the 24 quantifier/operator combinations share one implementation (apply_quant is generic in the
# inner operator; the harness macro instantiates it); thorough runs a representative subset
AQ_THOROUGH = {"bdd": {"exists_or", "exists_xor", "forall_and", "unique_and"},
               "bcdd": {"exists_and", "forall_or", "unique_xor"}}
for kind in ["bdd", "bcdd"]:
    CRATES[kind] = {}
    K = kind.upper()
    for op in ["and", "or", "nand", "nor", "xor", "equiv", "imp", "imp_strict", "not"]:
        add(kind, "proofs::step_" + op, BOOL_STEP_PROPS, timeout=900,
            bounds="one recursion step from an arbitrary well-formed %s: <=4 pre-existing nodes, 6 slots, 3 levels, capacity symbolic" % K)
        if op != "not":
            add(kind, "proofs::step_" + op + "_n5", BOOL_STEP_PROPS, tier="thorough", timeout=2400,
                bounds="one recursion step from an arbitrary well-formed %s: <=5 pre-existing nodes, 6 slots, 3 levels, capacity symbolic" % K)
    add(kind, "proofs::base_var_eval", ["C02", "C03", "C05", "C14"], timeout=1500,
        bounds="constants, var, not_var, eval (all variables given), cofactors on an arbitrary well-formed %s with <=3 nodes over 3 levels under an arbitrary variable order" % K)
    for dn in ["exists_and", "exists_xor", "forall_nand"]:
        add(kind, "proofs::step_apply_%s_deleg" % dn, ["C04", "C05", "C14", "C06"], timeout=2400, mem_reserve=8,
            bounds="apply_%s with one constant operand (terminal-case delegation); the delegated quantification is the real top-level step; <=4 pre-existing nodes, 3 levels, symbolic capacity" % dn)
    add(kind, "proofs::lemma_canonical", ["C01"], timeout=1500,
        bounds="every well-formed %s with <=5 nodes over 3 levels; all pairs of edges" % K)
    add(kind, "proofs::step_ite", BOOL_STEP_PROPS, timeout=1800, mem_reserve=8,
        bounds="one recursion step of ite (delegated terminal cases answered by the oracle): <=4 pre-existing nodes, 6 slots, 3 levels")
    add(kind, "proofs::step_ite_n5", BOOL_STEP_PROPS, tier="thorough", timeout=3600, mem_gb=16, mem_reserve=12,
        bounds="one recursion step of ite: <=5 pre-existing nodes, 6 slots, 3 levels")
    add(kind, "proofs::step_restrict", ["XRESTRICT"], timeout=1800,
        bounds="one recursion step of restrict: <=4 nodes, 3 levels, literal cube with <=2 literals")
    add(kind, "proofs::step_restrict_l3", ["XRESTRICT"], tier="thorough", timeout=3000,
        bounds="one recursion step of restrict: <=4 nodes, 3 levels, literal cube with <=3 literals")
    for op in ["forall", "exists", "unique"]:
        add(kind, "proofs::step_" + op, BOOL_Q_PROPS, timeout=1800,
            bounds="one recursion step: <=4 pre-existing nodes, 6 slots, 3 levels; variable set = any positive cube edge")
        add(kind, "proofs::step_" + op + "_n5", BOOL_Q_PROPS, tier="thorough", timeout=3000,
            bounds="one recursion step: <=5 pre-existing nodes, 6 slots, 3 levels; variable set = any positive cube edge")
    for vs in ["v0"]:
        add(kind, "proofs::step_substitute_" + vs, BOOL_Q_PROPS, timeout=2400, mem_reserve=10, mem_gb=14,
            bounds="substitute_prepare (real) + one recursion step of substitute: replaced variable(s) %s (concrete), arbitrary replacement functions, <=3 pre-existing nodes, 3 levels, identity order, arbitrary substitution id" % vs)
    for q in ["forall", "exists", "unique"]:
        for o in ["and", "or", "nand", "nor", "xor", "equiv", "imp", "imp_strict"]:
            nm = q + "_" + o
            if nm not in AQ_QUICK[kind] and nm not in AQ_THOROUGH[kind]:
                continue
            add(kind, "proofs::step_apply_" + nm, BOOL_Q_PROPS, tier="quick" if nm in AQ_QUICK[kind] else "thorough", timeout=2400, mem_reserve=12, mem_gb=14,
                bounds="one recursion step of apply_%s(%s): <=%d pre-existing nodes, 6 slots, 3 levels" % (q, o, 3 if kind == "bdd" else 2))

# ---------------------------------------------------------------- ZBDD
CRATES["zbdd"] = {}
ZB = "one recursion step from an arbitrary well-formed ZBDD: tautology chain (3 nodes, built by the real ZBDDCache code) + <=2 symbolic nodes (thorough: 3), 8 slots, 3 levels, capacity symbolic"
for op in ["union", "intsec", "diff"]:
    add("zbdd", "proofs::step_" + op, ["C09", "C01", "C03", "C05", "C06", "C14"], timeout=1500, bounds=ZB)
for op in ["subset0", "subset1", "change"]:
    add("zbdd", "proofs::step_" + op, ["C09", "C01", "C03", "C05", "C06", "C14"], timeout=2400, mem_gb=(22 if op == "change" else 16), mem_reserve=(20 if op == "change" else 12),
        tier="thorough" if op == "change" else "quick", bounds=ZB + "; arbitrary variable order")
for op in ["and", "or", "xor", "imp", "imp_strict", "not", "ite"]:
    add("zbdd", "proofs::step_" + op, ["C02", "C09", "C01", "C03", "C05", "C06", "C14"], timeout=1800, bounds=ZB)
for op in ["union", "intsec", "diff", "xor", "subset0", "subset1", "change"]:
    add("zbdd", "proofs::step_" + op + "_n3", ["C09", "C01", "C03", "C05", "C06", "C14"], tier="thorough", timeout=3600, mem_reserve=12, mem_gb=14, bounds=ZB)
add("zbdd", "proofs::base_constructors", ["C09", "C02", "C03"], timeout=1500,
    bounds="empty/base/f/t, singleton, var, make_node on an arbitrary ZBDD with <=2 symbolic nodes, arbitrary variable order")
add("zbdd", "proofs::lemma_canonical", ["C01"], timeout=1500, bounds="every well-formed ZBDD: tautology chain + <=4 nodes over 3 levels")

# ---------------------------------------------------------------- MTBDD lifting (C10b)
CRATES["mtbdd"] = {}
MB = "one recursion step from an arbitrary well-formed MTBDD: <=3 pre-existing nodes, 6 slots, 2 levels, terminal table with <=3 symbolic distinct values and symbolic capacity; terminal algebra = 8-bit instance of the I64 algebra (the lifting is independent of the operand width)"
for op in ["add", "sub", "mul", "div", "min", "max", "ite"]:
    add("mtbdd", "proofs::step_" + op, ["C10", "C01", "C03", "C05", "C06", "C14"], timeout=3000, tier="quick" if op in ("add", "sub", "max", "ite") else "thorough",
        bounds=MB.replace("<=3 pre-existing", "<=2 pre-existing"))
    if op != "ite":
        add("mtbdd", "proofs::step_" + op + "_n3", ["C10", "C01", "C03", "C05", "C06", "C14"], tier="thorough", timeout=3600, bounds=MB)
add("mtbdd", "proofs::base_constant_var", ["C10", "C03", "C05", "C14"], timeout=900, bounds="constant(v) and var(v) on an arbitrary MTBDD with <=2 nodes")

# ---------------------------------------------------------------- TDD (C11)
CRATES["tdd"] = {}
TB = "one recursion step from an arbitrary well-formed TDD: <=3 pre-existing ternary nodes, 6 slots, 2 levels (9 three-valued assignments), capacity symbolic"
for op in ["and", "or", "nand", "nor", "xor", "equiv", "imp", "imp_strict", "not", "ite"]:
    add("tdd", "proofs::step_" + op, ["C11", "C01", "C03", "C05", "C06", "C14"], timeout=2400, mem_reserve=(14 if op == "ite" else 6), mem_gb=(18 if op == "ite" else 12),
        tier="quick" if op in ("and", "or", "imp", "equiv", "xor", "not") else "thorough",
        bounds=TB.replace("<=3 pre-existing", "<=2 pre-existing") if op not in ("not",) else TB)
    if op not in ("not", "ite"):
        add("tdd", "proofs::step_" + op + "_n3", ["C11", "C01", "C03", "C05", "C06", "C14"], tier="thorough", timeout=3000, mem_reserve=8, bounds=TB)
add("tdd", "proofs::base_constants_var_eval", ["C11", "C03"], timeout=900, bounds="constants f/t/u (edge and handle level), var, cofactors on an arbitrary TDD with <=3 nodes")

# ---------------------------------------------------------------- C17 RawTable
CRATES["hashtbl"] = {"kani_args": ["-Z", "stubbing"]}
HB = "one operation on an arbitrary 16-slot RawTable<u8,u32> satisfying the representation invariant; key universe 4 keys with arbitrary 64-bit hashes (all collision patterns, wrap-around clusters, any tombstone layout)"
for hn in ["step_find_get", "step_insert_free5", "step_insert_free12", "step_remove"]:
    add("hashtbl", "proofs::" + hn, ["C17"], profile="full", timeout=2400, bounds=HB)
for n in [0, 1]:
    add("hashtbl", "proofs::step_insert_rehash_len%d" % n, ["C17"], profile="full", timeout=2400, mem_reserve=6,
        bounds=HB + "; insertion at the rehash boundary: free counter = slots/4 (concrete), %d live element(s), all other slots tombstones/FREE: reserve(1) must rehash (real reserve_rehash) before a FREE slot is consumed" % n)
add("hashtbl", "proofs::step_retain_norehash", ["C17", "C05"], profile="full", timeout=2400, mem_reserve=6,
    bounds=HB + "; retain with an arbitrary predicate (bit mask over the keys); the final shrinking reserve_rehash(0) is cut off by a stub (#[kani::stub]) that only records the request")
add("hashtbl", "proofs::step_retain", ["XRETAIN"], profile="full", timeout=3000, mem_reserve=10, mem_gb=14, bounds=HB + "; retain with an arbitrary predicate incl. the shrink/rehash path")

# ---------------------------------------------------------------- C15 DDDMP kernels
CRATES["dddmp"] = {"kani_args": ["-Z", "stubbing"]}
add("dddmp", "proofs::codec_roundtrip", ["C15"], profile="full", timeout=1800, mem_reserve=6,
    bounds="every usize: real encode_7bit + write_escaped into a buffer, real decode_7bit + read_unescape back")
add("dddmp", "proofs::decode_any_12", ["C15"], profile="full", timeout=2400, mem_reserve=6,
    bounds="real decode_7bit on every byte string of length <= 12 without escape bytes (covers truncation, over-long integers)")
add("dddmp", "proofs::unescape_any", ["C15"], profile="full", timeout=600, bounds="real read_unescape on every byte string of length <= 2")
add("dddmp", "proofs::sanitise_len1", ["C15"], profile="full", timeout=900, bounds="real replace_space_and_control on every 1-character ASCII name")

# ---------------------------------------------------------------- C06 DMApplyCache
for cap in [1, 2, 4]:
    add("bdd", "cache_proofs::cache_seq3_cap%d" % cap, ["C06"], profile="full", timeout=1800,
        # with a single bucket every insertion overwrites: the goal is guarded by `capacity > 1`
        opt_covers=["an older entry survives a later insertion"] if cap == 1 else [],
        bounds="real DMApplyCache<_, BDDOp, SymHasher, 5>, capacity %d (concrete), 3 arbitrary insertions + 1 arbitrary lookup; keys: 2 operators, 1..3 edge operands (4 ids), 0..1 numeric operands; hash = symbolic affine function" % cap)
add("bdd", "cache_proofs::cache_gc_bracket", ["C06"], profile="full", timeout=1800,
    bounds="real DMApplyCache, capacity 2: add; pre_gc; get/add; post_gc; get/add; clear; get with arbitrary keys")

# ---------------------------------------------------------------- C12 Natural
for hn, b in [("from_u128_roundtrip", "every u128"), ("from_u64_roundtrip", "every u64"), ("eq", "every pair of u128"), ("cmp", "m*2^e with 16-bit m, e <= 112"),
              ("shift", "every u128, shift 0..127"), ("exp_overflow", "every non-zero u64, shift by u64::MAX"),
              ("clone_inline", "every pair of u64 (inline representation)")]:
    add("kernels", "natural::c12_natural_" + hn, ["C12"], profile="full", timeout=1800, bounds="Natural: " + b + " (mantissa <= 2 digits)")

# ---------------------------------------------------------------- C13 cube picking
for kind in ["bdd", "bcdd", "zbdd"]:
    for hn in ["base_pick_cube", "base_pick_cube_dd", "base_pick_cube_dd_set"]:
        add(kind, "proofs::" + hn, ["C13", "C03", "C05", "C14"] if hn != "base_pick_cube" else ["C13"], timeout=1800,
            bounds="whole (linear) recursion on an arbitrary well-formed %s with <=4 nodes over 3 levels; arbitrary choice vector / literal cube; symbolic capacity" % kind.upper())

# ---------------------------------------------------------------- modelling probes (guard against a known CBMC pitfall)
for kind in ["bdd", "bcdd", "zbdd", "mtbdd", "tdd"]:
    add(kind, "proofs::probe_child0_by_ref", ["C01", "C03"], timeout=900, bounds="modelling probe: symbolic node index, first child by reference")

# ---------------------------------------------------------------- C08 order computation
CRATES["reorder"] = {}
for k in range(5):
    add("reorder", "proofs::sort_order_k%d" % k, ["C08"], profile="full", timeout=1800, mem_reserve=6,
        bounds="real sort_order + MinSegTree: 4 levels, every partial order naming %d distinct levels; minimality against an arbitrary competing permutation" % k)
add("reorder", "proofs::bubble_sort_4", ["C08"], profile="full", timeout=1800, bounds="real bubble_sort on every permutation of 4 levels")

# ---------------------------------------------------------------- C07 (narrow)
for kind in ["bdd", "bcdd"]:
    for hn in ["mt_and", "mt_xor"]:
        add(kind, "proofs::mt::" + hn, ["C07", "C14", "C05"], timeout=2400, mem_reserve=8,
            # BCDD xor with <= 3 nodes: no non-terminal sub-call has its result among the existing
            # nodes (x (+) y is never +-x, +-y or constant), so the oracle cannot answer one
            opt_covers=["oracle consulted"] if (kind, hn) == ("bcdd", "mt_xor") else [],
            bounds="one recursion step of the multi-threaded algorithm (real ParallelRecursor) over a stub pool: both serialisations of the fork/join, split depth 0..2, <=3 pre-existing nodes, 3 levels, symbolic capacity")

STEP_NOTE = ("trusted: Kani/CBMC; the stub manager KManager (array-backed, implements the documented Manager/LevelView contract) and "
             "the ghost truth tables; sub-calls of the recursion are answered by an oracle apply-cache constrained only by the "
             "specification (induction hypothesis), so one step from an arbitrary well-formed diagram covers every history that "
             "reaches such a diagram; the real index/pointer managers (threads, locks, slabs) are outside the encoding")
STEP_BOUNDS = "arbitrary well-formed diagram with <=4 (thorough: 5) pre-existing nodes, 6 node slots, 3 levels, symbolic node capacity (every allocation may fail), one recursion step with oracle sub-results"

PROPS = {
    "C01": {
        "claim": "Bounded model checking (SAT) of the real rule code: (a) lemma: in every well-formed (ordered, reduced, duplicate-free) diagram within the bound two edges are equal iff their truth tables are equal; (b) every operation step preserves well-formedness (asserted after each step harness).",
        "bounds": STEP_BOUNDS, "note": STEP_NOTE,
        "outside": "the concurrent unique table of the real managers; diagrams with more than 3 levels / 6 nodes",
        "assumptions": ["KManager implements the LevelView::get_or_insert contract", "ghost truth tables computed by harness code"],
    },
    "C02": {
        "claim": "Bounded model checking (SAT) of the real apply algorithms: for every well-formed diagram, operand tuple, oracle cache content and capacity within the bound, the result of not/and/or/nand/nor/xor/equiv/imp/imp_strict/ite has exactly the truth table of the connective.",
        "bounds": STEP_BOUNDS, "note": STEP_NOTE,
        "outside": "operands over more than 3 levels; the multi-threaded recursor under real threads",
        "assumptions": ["spec functions (bin_spec etc.) are the propositional connectives on truth tables"],
    },
    "C03": {
        "claim": "Bounded model checking (SAT): every node handed to the unique table by the real rule code is at the level it reports, has children on strictly lower levels and is reduced (asserted inside the stub's get_or_insert), and the whole diagram is well-formed after every step.",
        "bounds": STEP_BOUNDS, "note": STEP_NOTE,
        "outside": "the index/pointer managers' own level tables, LevelView::swap",
        "assumptions": [],
    },
    "C04": {
        "claim": "Bounded model checking (SAT) of the real quantification code: forall/exists/unique (BDD, BCDD), apply_forall/exists/unique (BDD: general recursion step for a representative set of inner operators; BDD and BCDD: the terminal-case delegation to the plain quantifiers) and substitute with the top-most variable replaced return exactly the iterated cofactor combination computed on truth tables, for every diagram, variable cube and oracle content within the bound. restrict, the general BCDD apply_quant step and substitution of lower variables could not be encoded and are outside the claim.",
        "bounds": STEP_BOUNDS + "; variable sets / literal cubes are arbitrary cube edges", "note": STEP_NOTE,
        "outside": "restrict (cube walk recurses outside the cache: infeasible), general BCDD apply_quant step (> 44 GB), substitute of lower variables, substitution-id reuse across gc in the real manager",
        "assumptions": ["quant_spec/restrict_spec are the textbook definitions on truth tables"],
    },
    "C05": {
        "claim": "Bounded model checking (SAT): for a universally quantified watched node, every operation step changes the number of references by exactly +1 for the returned handle plus the edges stored in newly created nodes, and by 0 otherwise - on success and on out-of-memory returns (no leak, no double drop in the rule code).",
        "bounds": STEP_BOUNDS, "note": STEP_NOTE,
        "outside": "the store's slot free lists, gc thread, try_remove_node of the real managers",
        "assumptions": ["ghost reference counter: clone/get_or_insert/get_terminal +1, drop -1 on the watched id"],
    },
    "C06": {
        "claim": "Bounded model checking (SAT): every apply-cache insertion made by the real rule code stores a value that satisfies the specification of the operator/operand/numeric key it is stored under (so a memoised result can never be served for another operation), and results are correct for every cache content consistent with the specification.",
        "bounds": STEP_BOUNDS, "note": STEP_NOTE,
        "outside": "gc/reorder event emission of the real managers",
        "assumptions": [],
    },
    "C10": {
        "claim": "SAT-based checking of the compiled I64 terminal arithmetic against an exact i128 model over full-width operands (add, sub, mul, cmp, special forms of div; div of finite values through the division lemma with a bounded divisor).",
        "bounds": "scalar kernels: full 64-bit operands incl. NaN/+-inf (div: divisor 8 bit quick / 16 bit thorough, or i64::MIN/MAX)",
        "outside": "float arithmetic itself (IEEE operations of the CPU), 64-bit divisors other than i64::MIN/MAX",
        "note": "trusted: Kani/CBMC, spec_* functions in harness/kernels/src/i64_terminal.rs (exact i128 arithmetic)",
        "assumptions": ["spec_* functions are the documented semantics"],
    },
    "C14": {
        "claim": "Bounded model checking (SAT) with a symbolic node capacity: whichever allocation fails, the step returns Err(OutOfMemory) without panicking, only when an allocation really failed, leaves the diagram well-formed with all pre-existing nodes unchanged and releases every reference it acquired.",
        "bounds": STEP_BOUNDS, "note": STEP_NOTE,
        "outside": "retry-after-gc on the real manager; level_swap / ZBDD tautology rebuild (documented to abort on OOM)",
        "assumptions": [],
    },
    "C07": {
        "level": "other",
        "claim": "Narrow claim only: the real multi-threaded apply algorithms (ParallelRecursor) over a stub worker pool whose join runs the two sub-problems sequentially in a solver-chosen order: for both serialisations and every split depth 0..2 the result is the specified function, well-formedness and exact reference counts hold, and a failing branch does not leak its sibling's result. Pre-emptive interleavings, locks, memory orderings and deadlock freedom are NOT decided (Kani has no threads; the real managers cannot be constructed).",
        "bounds": "one recursion step, <=3 pre-existing nodes, 3 levels, split depth 0..2, both fork/join serialisations", "note": STEP_NOTE,
        "outside": "real threads: interleavings at lock/atomic granularity, the unique table's level mutexes, cache bucket try-locks, gc running alongside",
        "explanation": "Solver-decided equivalence of the parallel recursion's two serialisations with the sequential specification; concurrency proper is outside the reach of this technique.",
        "assumptions": ["WorkerPool::join may run its closures in any order (stub KPool)"],
    },
    "C08": {
        "level": "other",
        "claim": "Order computation only: the real sort_order (with the real MinSegTree) returns, for every partial order over 4 levels, a permutation that respects the requested relative order and has the minimal number of inversions among all such permutations (checked against an arbitrary competitor permutation); the real bubble_sort performs only adjacent swaps, exactly as many as there are inversions, and ends sorted. The function-preserving level swap itself could not be encoded (see DESIGN.md: level_swap's SmallVec-based loops exhaust 14 GB in symbolic execution); defect F1 in level_swap is documented but not decided by this check.",
        "bounds": "4 levels; k = 0..4 named levels; every permutation for bubble_sort",
        "outside": "level_swap / set_var_order on a diagram (function preservation, canonicity after reordering), concurrent_bubble_sort under real threads",
        "note": "trusted: Kani/CBMC; hook feature verif-hooks of oxidd-reorder re-exports the private functions unchanged",
        "explanation": "Bounded solver check of the target-order computation; the diagram transformation part of the property is not covered.",
        "assumptions": [],
    },
    "C09": {
        "claim": "Bounded model checking (SAT) of the real ZBDD rules over the stub manager: union/intsec/diff/subset0/subset1/make_node/singleton/empty/base return exactly the families of their documentation (families = 8-bit tables over 3 variables, any variable order for the variable-indexed operations), and the Boolean view (and/or/xor/not/imp/imp_strict/ite, var, t/f) is the same table.",
        "bounds": "tautology chain (real ZBDDCache code) + <=2 symbolic nodes (thorough 3), 8 slots, 3 levels, symbolic capacity, one recursion step with oracle sub-results", "note": STEP_NOTE,
        "outside": "change (step harness exists, exceeds 22 GB), nand/nor/equiv as single harnesses (compositions of verified steps; exceed 12 GB), ZBDD restrict, add_vars on the real manager",
        "assumptions": ["family semantics as bit tables: bit s = set s is a member"],
    },
    "C11": {
        "claim": "Bounded model checking (SAT) of the real TDD rules: every connective (not, and, or, xor, equiv, imp in the quick tier; nand, nor, imp_strict in the thorough tier) is the pointwise lifting of the fixed three-valued tables of the property statement (Kleene and/or/not, Lukasiewicz imp/equiv, derived nand/nor/xor/imp_strict) over all 9 three-valued assignments of 2 variables; constants f/t/u at edge and handle level, var and the cofactor order are checked directly.",
        "bounds": "<=2 pre-existing ternary nodes (thorough 3), 6 slots, 2 levels (9 assignments), symbolic capacity, one recursion step", "note": STEP_NOTE,
        "outside": "ite (step harness exists; no verdict within 18 GB), eval_edge (slice-driven loop), more than 2 variables",
        "assumptions": ["tv_bin / tv_ite in harness/tdd/src/lib.rs are the tables of the property statement"],
    },
    "C12": {
        "level": "other",
        "claim": "Natural-number type only, and only the operations whose allocation sizes are concrete: From<u64/u128>, conversions to u64/u128, comparison/equality, shifts (exact right shift, NaN on inexact shift and exponent overflow) and inline clone are exact for every 128-bit value (solver-decided against u128 arithmetic). Natural::add, heap clone/clone_from, textual output and sat_count itself are outside (symbolic allocation sizes / hashbrown are not encodable), so the model-counting part of the property is not claimed.",
        "bounds": "every u64 / u128 value; shift amounts 0..127", "note": "trusted: Kani/CBMC; u128 arithmetic as the oracle",
        "outside": "Natural::add, clone of multi-digit values, Display/Binary/Octal/Hex, f64 conversion, sat_count_edge and SatCountCache",
        "explanation": "Solver-decided exactness of the conversion / comparison / shift kernels of the big natural type; the counting recursion and addition are not reachable for the back end.",
        "assumptions": [],
    },
    "C13": {
        "claim": "Bounded model checking (SAT) of the real pick_cube / pick_cube_dd / pick_cube_dd_set code (whole linear recursion) for BDD, BCDD and ZBDD: nothing / false exactly for the unsatisfiable function; the result is a cube implying the function; forced variables are forced, unforced ones follow the choice vector resp. the literal set, all other variables stay don't-care; the choice function is called at most once per level with a node of that level; pick_cube and pick_cube_dd satisfy the same specification under the same choices.",
        "bounds": "every well-formed diagram with <=4 nodes (ZBDD: tautology chain + <=3) over 3 levels, every choice vector / literal cube, symbolic capacity", "note": STEP_NOTE,
        "outside": "pick_cube_uniform (random number generator, statistical bias is not a solver property)",
        "assumptions": ["cube_spec_ok (semantic walk on truth tables) is the documented behaviour"],
    },
    "C15": {
        "level": "other",
        "claim": "Kernels only: (a) the escaped 7-bit integer codec of the binary DDDMP mode round-trips every usize through the real writer and reader, consuming exactly the written bytes; (b) the real reader on every byte string of <=12 bytes returns the denoted integer or an error (truncation, over-long integers), never a silently wrapped value, never a panic; (c) the escape layer accepts exactly the four documented escapes; (d) the name sanitiser replaces exactly spaces and ASCII control characters by '_' and reports a replacement iff one happened. The export/import round trip on diagrams, the header parser and the ASCII node section are NOT decided (line-oriented String/Vec/FxHashMap code with symbolic allocation sizes is out of reach of the back end).",
        "bounds": "every usize (codec); byte strings <= 12 bytes (decoder), <= 2 bytes (escape layer); ASCII names of 1 character",
        "outside": "export_common / import_ascii / import_bin / DumpHeader::load on diagrams, non-ASCII names, the ASCII list parsers (format!/from_utf8_lossy error paths exhausted 21 GB)",
        "note": "trusted: Kani/CBMC; hook feature verif-hooks of oxidd-dump re-exports the private kernels unchanged; alloc::fmt::format stubbed by an empty body (error messages are not the subject)",
        "explanation": "Solver-decided correctness of the byte-level kernels the round trip rests on; found and fixed two defects (spaces not sanitised; over-long integers silently wrapped).",
        "assumptions": ["alloc::fmt::format stubbed (returns an empty String)", "names restricted to ASCII"],
    },
    "C17": {
        "claim": "One-step induction, decided by SAT over the real RawTable<u8,u32>: from an arbitrary 16-slot table satisfying the representation invariant (any tombstone layout, any collision pattern incl. wrap-around, hash = arbitrary 64-bit function of 4 keys), find/get, insertion (without rehash, and through the real reserve_rehash at the rehash boundary with <=1 live element) removal and retain (tombstone compaction; its final shrinking rehash cut off by a stub) preserve the invariant (incl. free >= 25 %), terminate, and change membership exactly as a set; retain drops every rejected element exactly once.",
        "bounds": "16 slots (MIN_CAP), key universe of 4 keys, arbitrary hashes; free counter concrete in {5, 12} for insertion without rehash, = 4 with 0 or 1 live elements for insertion with rehash", "note": "trusted: Kani/CBMC; hook feature verif-hooks of linear-hashtbl (constructor/observers for the raw representation); the invariant stated in harness/hashtbl/src/proofs.rs",
        "outside": "reserve_rehash with more than one live element or a capacity change (growth/shrink), retain's shrink step, drain, clear, clone, iteration; tables larger than 16 slots",
        "assumptions": ["callers never insert duplicates (contract of insert_in_slot_unchecked)"],
    },
}

HOOK_COMMITS = ["99a16a6", "bfce692", "73bba66", "e6453f9"]

NOT_APPLICABLE = {
    "C07": "Kani/CBMC (the only engine of this technique that reaches Rust) has no threads and the real managers (rayon pool, GC thread, parking_lot locks) cannot be constructed symbolically; interleavings cannot be made solver variables for this code",
    "C16": "VarNameMap is built on std HashMap<Unowned<str>, _>; hashbrown gives no verdict under CBMC, and with a linear-map hook the String/Box<str>/Vec machinery exhausted 10 GB already for operation sequences of length 2 (probe in DESIGN.md); the real managers' add_named_vars scope guard needs the concrete manager",
    "C18": "Circuit::simplify and the nom-based parsers run on FxHashMap/bumpalo/Vec2d and format!-built diagnostics; a hashbrown map alone gave no verdict in 10 min under Kani (DESIGN.md §0), so the code cannot be encoded within reach",
    "C19": "the C API is a cdylib over the concrete index manager (rayon pool + GC thread created at construction: unsupported by Kani); ownership balance is a property of that manager's atomics",
    "C20": "needs both real manager back ends (threads, locks, mmap'ed slabs) executed under the cfg_if instantiations of the oxidd crate; not encodable for a SAT/SMT back end",
}


# Step harnesses serve several properties at once. For the property a harness is primarily
# about (first entry of props) it runs in that property's quick tier; for the other
# properties only a representative core set runs in the quick tier (all of them in thorough).
CORE = {
    "bdd": {"step_and", "step_not", "step_exists", "base_var_eval", "probe_child0_by_ref", "lemma_canonical"},
    "bcdd": {"step_and", "step_xor", "step_forall", "base_var_eval", "probe_child0_by_ref", "lemma_canonical"},
    "zbdd": {"step_union", "step_diff", "step_subset1", "probe_child0_by_ref", "lemma_canonical"},
    "mtbdd": {"base_constant_var", "probe_child0_by_ref"},
    "tdd": {"step_and", "probe_child0_by_ref"},
}
# heavier harnesses that a non-primary property still wants in its quick tier
QUICK_EXTRA = {
    "C05": {"bdd/step_apply_exists_and_deleg", "bdd/step_apply_exists_xor_deleg", "mtbdd/step_add", "bdd/base_pick_cube_dd"},
    "C14": {"bdd/step_apply_exists_and_deleg", "bdd/step_apply_exists_xor_deleg", "mtbdd/step_add", "bcdd/base_pick_cube_dd_set"},
    "C06": {"bdd/step_apply_exists_and", "mtbdd/step_max", "zbdd/step_subset0"},
    "C03": {"bcdd/step_ite", "zbdd/step_not"},
    "C01": {"bdd/step_xor", "tdd/step_imp"},
}


# Thorough-tier harnesses that are kept registered: the deeper variants that were validated to
# finish on the unchanged tree within their time/memory limits. Other deeper variants exist in the
# harness crates (e.g. *_n5 of every connective, ite_n5, TDD ite) and can be run by name with
# cargo kani, but a check must not depend on a harness that may end without a verdict.
KEEP_THOROUGH = {
    "kernels": {"c10_i64_div_d8", "c10_i64_div_d16"},
    "bdd": {"step_and_n5", "step_xor_n5", "step_exists_n5", "step_apply_exists_or", "step_apply_exists_xor", "step_apply_forall_and", "step_apply_unique_and"},
    "bcdd": {"step_and_n5", "step_xor_n5", "step_forall_n5"},  # general apply_quant step: > 14 GB
    "zbdd": {"step_union_n3", "step_diff_n3", "step_subset1_n3"},  # step_change: > 22 GB
    "mtbdd": {"step_mul", "step_div", "step_min", "step_add_n3", "step_sub_n3"},
    "tdd": {"step_nand", "step_nor", "step_imp_strict", "step_and_n3", "step_xor_n3", "step_equiv_n3", "step_imp_n3"},
}
H[:] = [h for h in H if h["tier"] == "quick" or h["name"].split("::")[-1] in KEEP_THOROUGH.get(h["crate"], ())]

THOROUGH_CORE = {
    "bdd": {"step_and_n5", "step_xor_n5", "step_exists_n5"},
    "bcdd": {"step_and_n5", "step_xor_n5", "step_forall_n5"},
    "zbdd": {"step_union_n3", "step_diff_n3", "step_subset1_n3"},
    "mtbdd": {"step_mul", "step_min", "step_add_n3"},
    "tdd": {"step_and_n3", "step_xor_n3", "step_imp_strict"},
}


def select(pid, tier):
    out = []
    for h in H:
        if pid not in h["props"]:
            continue
        if tier == "thorough":
            # thorough = every quick-tier harness that serves the property (no core restriction),
            # the deeper variants of the harnesses the property is primarily about, and for the
            # cross-cutting properties a fixed set of deeper variants per diagram kind
            short = h["name"].split("::")[-1]
            if h["tier"] == "quick" or h["props"][0] == pid or short in THOROUGH_CORE.get(h["crate"], ()):
                out.append(dict(h))
            continue
        if h["tier"] != "quick":
            continue
        short = h["name"].split("::")[-1]
        if (h["props"][0] == pid or h["crate"] not in CORE or short in CORE[h["crate"]]
                or h["crate"] + "/" + short in QUICK_EXTRA.get(pid, ())):
            out.append(dict(h))
    return out
