"""Harness registry: which Kani harness serves which property at which tier."""

CRATES = {
    "kernels": {},
    "bdd": {},
}

# name, props (first = primary: untagged failures such as Rust panics are
# attributed to it), tier, profile, timeout, bounds
H = []


def add(crate, name, props, tier="quick", profile="lean", timeout=600, mem_gb=12, bounds="", **kw):
    d = dict(crate=crate, name=name, props=list(props), tier=tier, profile=profile, timeout=timeout,
             mem_gb=mem_gb, bounds=bounds)
    d.update(kw)
    H.append(d)


# ---------------------------------------------------------------- C10 scalar kernels
for op, b in [("add", "full 64x64 bit + NaN/+-inf"), ("sub", "full 64x64 bit + NaN/+-inf"),
              ("mul", "full 64x64 bit + NaN/+-inf"), ("cmp", "full 64x64 bit + NaN/+-inf"),
              ("div_special", "all operand classes except finite/non-zero finite"),
              ("div_d8", "dividend 64 bit; divisor 8 bit (sign-extended) or i64::MIN/MAX")]:
    add("kernels", "i64_terminal::c10_i64_" + op, ["C10"], profile="full", timeout=900, bounds=b)
add("kernels", "i64_terminal::c10_i64_div_d16", ["C10"], tier="thorough", profile="full", timeout=3000,
    bounds="dividend 64 bit; divisor 16 bit (sign-extended) or i64::MIN/MAX")

# ---------------------------------------------------------------- BDD step harnesses
BDD_STEP_PROPS = ["C02", "C01", "C03", "C05", "C06", "C14"]
for op in ["and", "or", "nand", "nor", "xor", "equiv", "imp", "imp_strict", "not"]:
    add("bdd", "proofs::step_" + op, BDD_STEP_PROPS, timeout=900,
        bounds="one recursion step from an arbitrary well-formed BDD: <=4 pre-existing nodes, 6 slots, 3 levels, capacity symbolic")
    if op != "not":
        add("bdd", "proofs::step_" + op + "_n5", BDD_STEP_PROPS, tier="thorough", timeout=2400,
            bounds="one recursion step from an arbitrary well-formed BDD: <=5 pre-existing nodes, 6 slots, 3 levels, capacity symbolic")


add("bdd", "proofs::lemma_canonical", ["C01"], timeout=1500,
    bounds="every well-formed BDD with <=5 nodes over 3 levels; all pairs of edges")
add("bdd", "proofs::step_ite", BDD_STEP_PROPS, timeout=1500,
    bounds="one recursion step of ite: <=4 pre-existing nodes, 6 slots, 3 levels")
BDD_Q_PROPS = ["C04", "C01", "C03", "C05", "C06", "C14"]
for op in ["restrict", "forall", "exists", "unique"]:
    add("bdd", "proofs::step_" + op, BDD_Q_PROPS, timeout=1500,
        bounds="one recursion step: <=5 nodes + 1 free slot, 3 levels; variable set / literal cube = any cube edge")
AQ_QUICK = {"exists_and", "forall_or", "unique_xor", "forall_imp", "exists_imp_strict", "unique_nand"}
for q in ["forall", "exists", "unique"]:
    for o in ["and", "or", "nand", "nor", "xor", "equiv", "imp", "imp_strict"]:
        nm = q + "_" + o
        add("bdd", "proofs::step_apply_" + nm, BDD_Q_PROPS, tier="quick" if nm in AQ_QUICK else "thorough", timeout=2400,
            bounds="one recursion step of apply_%s(%s): <=4 pre-existing nodes, 6 slots, 3 levels" % (q, o))

STEP_NOTE = ("trusted: Kani/CBMC; the stub manager KManager (array-backed, implements the documented Manager/LevelView contract) and "
             "the ghost truth tables; sub-calls of the recursion are answered by an oracle apply-cache constrained only by the "
             "specification (induction hypothesis), so one step from an arbitrary well-formed diagram covers every history that "
             "reaches such a diagram; the real index/pointer managers (threads, locks, slabs) are outside the encoding")
STEP_BOUNDS = "arbitrary well-formed diagram with <=4 (thorough: 5) pre-existing nodes, 6 node slots, 3 levels, symbolic node capacity (every allocation may fail), one recursion step with oracle sub-results"

PROPS = {
    "C01": {
        "claim": "Bounded model checking (SAT) of the real rule code: (a) lemma: in every well-formed (ordered, reduced, duplicate-free) diagram within the bound two edges are equal iff their truth tables are equal; (b) every operation step preserves well-formedness (asserted after each step harness).",
        "bounds": STEP_BOUNDS, "note": STEP_NOTE,
        "outside": "the concurrent unique table of the real managers; diagrams with more than 3 levels / 6 nodes",
        "assumptions": ["KManager implements the LevelView::get_or_insert contract", "ghost truth tables computed by harness code"],
    },
    "C02": {
        "claim": "Bounded model checking (SAT) of the real apply algorithms: for every well-formed diagram, operand tuple, oracle cache content and capacity within the bound, the result of not/and/or/nand/nor/xor/equiv/imp/imp_strict/ite has exactly the truth table of the connective.",
        "bounds": STEP_BOUNDS, "note": STEP_NOTE,
        "outside": "operands over more than 3 levels; the multi-threaded recursor under real threads",
        "assumptions": ["spec functions (bin_spec etc.) are the propositional connectives on truth tables"],
    },
    "C03": {
        "claim": "Bounded model checking (SAT): every node handed to the unique table by the real rule code is at the level it reports, has children on strictly lower levels and is reduced (asserted inside the stub's get_or_insert), and the whole diagram is well-formed after every step.",
        "bounds": STEP_BOUNDS, "note": STEP_NOTE,
        "outside": "the index/pointer managers' own level tables, LevelView::swap",
        "assumptions": [],
    },
    "C04": {
        "claim": "Bounded model checking (SAT) of the real quant/restrict/apply_quant code: results equal the iterated cofactor combination computed on truth tables, for every diagram, variable cube and oracle content within the bound.",
        "bounds": STEP_BOUNDS + "; variable sets / literal cubes are arbitrary cube edges", "note": STEP_NOTE,
        "outside": "substitution-id reuse across gc in the real manager",
        "assumptions": ["quant_spec/restrict_spec are the textbook definitions on truth tables"],
    },
    "C05": {
        "claim": "Bounded model checking (SAT): for a universally quantified watched node, every operation step changes the number of references by exactly +1 for the returned handle plus the edges stored in newly created nodes, and by 0 otherwise - on success and on out-of-memory returns (no leak, no double drop in the rule code).",
        "bounds": STEP_BOUNDS, "note": STEP_NOTE,
        "outside": "the store's slot free lists, gc thread, try_remove_node of the real managers",
        "assumptions": ["ghost reference counter: clone/get_or_insert/get_terminal +1, drop -1 on the watched id"],
    },
    "C06": {
        "claim": "Bounded model checking (SAT): every apply-cache insertion made by the real rule code stores a value that satisfies the specification of the operator/operand/numeric key it is stored under (so a memoised result can never be served for another operation), and results are correct for every cache content consistent with the specification.",
        "bounds": STEP_BOUNDS, "note": STEP_NOTE,
        "outside": "gc/reorder event emission of the real managers",
        "assumptions": [],
    },
    "C10": {
        "claim": "SAT-based checking of the compiled I64 terminal arithmetic against an exact i128 model over full-width operands (add, sub, mul, cmp, special forms of div; div of finite values through the division lemma with a bounded divisor).",
        "bounds": "scalar kernels: full 64-bit operands incl. NaN/+-inf (div: divisor 8 bit quick / 16 bit thorough, or i64::MIN/MAX)",
        "outside": "float arithmetic itself (IEEE operations of the CPU), 64-bit divisors other than i64::MIN/MAX",
        "note": "trusted: Kani/CBMC, spec_* functions in harness/kernels/src/i64_terminal.rs (exact i128 arithmetic)",
        "assumptions": ["spec_* functions are the documented semantics"],
    },
    "C14": {
        "claim": "Bounded model checking (SAT) with a symbolic node capacity: whichever allocation fails, the step returns Err(OutOfMemory) without panicking, only when an allocation really failed, leaves the diagram well-formed with all pre-existing nodes unchanged and releases every reference it acquired.",
        "bounds": STEP_BOUNDS, "note": STEP_NOTE,
        "outside": "retry-after-gc on the real manager; level_swap / ZBDD tautology rebuild (documented to abort on OOM)",
        "assumptions": [],
    },
}

HOOK_COMMITS = []

NOT_APPLICABLE = {
    "C18": "Circuit::simplify and the nom-based parsers run on FxHashMap/bumpalo/Vec2d and format!-built diagnostics; a hashbrown map alone gave no verdict in 10 min under Kani (DESIGN.md §0), so the code cannot be encoded within reach",
    "C19": "the C API is a cdylib over the concrete index manager (rayon pool + GC thread created at construction: unsupported by Kani); ownership balance is a property of that manager's atomics",
    "C20": "needs both real manager back ends (threads, locks, mmap'ed slabs) executed under the cfg_if instantiations of the oxidd crate; not encodable for a SAT/SMT back end",
}


def select(pid, tier):
    out = []
    for h in H:
        if pid in h["props"] and (tier == "thorough" or h["tier"] == "quick"):
            out.append(dict(h))
    return out
